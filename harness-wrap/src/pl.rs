//! Interpreter of parking_lot / dashmap programs and the collections iteration-order probe (C20).
use serde_json::Value;
use std::sync::Arc;

pub fn run_main(_p: Arc<Value>) {
    unimplemented!("locks programs")
}

pub fn cmd_iter(_args: &[String]) {
    unimplemented!("iteration-order probe")
}
