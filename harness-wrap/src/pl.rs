//! Interpreter of parking_lot / dashmap programs and the collections iteration-order probe (C20).
//! The parking_lot replacement is driven through the raw lock_api traits, one call per operation.
use crate::rec::log;
use serde_json::{json, Value};
use shuttle_dashmap_impl::DashMap;
use shuttle_parking_lot_impl::lock_api::{
    RawMutex as _, RawRwLock as _, RawRwLockDowngrade as _, RawRwLockUpgrade as _, RawRwLockUpgradeDowngrade as _,
};
use shuttle_parking_lot_impl::{RawMutex, RawRwLock};
use std::sync::atomic::{AtomicI64, Ordering};
use std::sync::Arc;

struct Shared {
    rws: Vec<RawRwLock>,
    data: Vec<AtomicI64>, // protected by the rwlock of the same index (plain atomics: no scheduling points)
    mxs: Vec<RawMutex>,
    maps: Vec<DashMap<i64, i64>>,
}

fn call(t: usize, pc: usize, k: &str, o: i64, v: i64) {
    log(json!({"e":"call","t":t,"pc":pc,"k":k,"o":o,"v":v}));
}
fn ret(t: usize, pc: usize, k: &str, r: i64) {
    log(json!({"e":"ret","t":t,"pc":pc,"k":k,"r":r}));
}

/// 0 = nothing, 1 = shared, 2 = upgradable, 3 = exclusive
fn exec(sh: &Shared, mode: &mut [u8], mheld: &mut [bool], k: &str, o: i64, v: i64) -> i64 {
    let ou = o as usize;
    let b = |x: bool| if x { 1 } else { 0 };
    unsafe {
        match k {
            "rd_lock" => {
                sh.rws[ou].lock_shared();
                mode[ou] = 1;
                0
            }
            "rd_try" => {
                let ok = sh.rws[ou].try_lock_shared();
                if ok {
                    mode[ou] = 1;
                }
                b(ok)
            }
            "rd_unlock" => {
                sh.rws[ou].unlock_shared();
                mode[ou] = 0;
                0
            }
            "wr_lock" => {
                sh.rws[ou].lock_exclusive();
                mode[ou] = 3;
                0
            }
            "wr_try" => {
                let ok = sh.rws[ou].try_lock_exclusive();
                if ok {
                    mode[ou] = 3;
                }
                b(ok)
            }
            "wr_unlock" => {
                sh.rws[ou].unlock_exclusive();
                mode[ou] = 0;
                0
            }
            "up_lock" => {
                sh.rws[ou].lock_upgradable();
                mode[ou] = 2;
                0
            }
            "up_try" => {
                let ok = sh.rws[ou].try_lock_upgradable();
                if ok {
                    mode[ou] = 2;
                }
                b(ok)
            }
            "up_unlock" => {
                sh.rws[ou].unlock_upgradable();
                mode[ou] = 0;
                0
            }
            "upgrade" => {
                sh.rws[ou].upgrade();
                mode[ou] = 3;
                0
            }
            "try_upgrade" => {
                let ok = sh.rws[ou].try_upgrade();
                if ok {
                    mode[ou] = 3;
                }
                b(ok)
            }
            "downgrade" => {
                sh.rws[ou].downgrade();
                mode[ou] = 1;
                0
            }
            "down_up" => {
                sh.rws[ou].downgrade_upgradable();
                mode[ou] = 1;
                0
            }
            "down_to_up" => {
                sh.rws[ou].downgrade_to_upgradable();
                mode[ou] = 2;
                0
            }
            "get" => sh.data[ou].load(Ordering::SeqCst),
            "set" => {
                sh.data[ou].store(v, Ordering::SeqCst);
                0
            }
            "pm_lock" => {
                sh.mxs[ou].lock();
                mheld[ou] = true;
                0
            }
            "pm_try" => {
                let ok = sh.mxs[ou].try_lock();
                if ok {
                    mheld[ou] = true;
                }
                b(ok)
            }
            "pm_unlock" => {
                sh.mxs[ou].unlock();
                mheld[ou] = false;
                0
            }
            // dashmap: one map per index; o = map * 16 + key
            "dm_insert" => sh.maps[ou / 16].insert(o % 16, v).unwrap_or(-1),
            "dm_get" => sh.maps[ou / 16].get(&(o % 16)).map(|r| *r.value()).unwrap_or(-1),
            "dm_remove" => sh.maps[ou / 16].remove(&(o % 16)).map(|(_, x)| x).unwrap_or(-1),
            "dm_contains" => b(sh.maps[ou / 16].contains_key(&(o % 16))),
            "dm_len" => sh.maps[ou / 16].len() as i64,
            "dm_alter" => {
                sh.maps[ou / 16].alter(&(o % 16), |_, x| x + v);
                0
            }
            "dm_clear" => {
                sh.maps[ou / 16].clear();
                0
            }
            "yield" => {
                shuttle::thread::yield_now();
                0
            }
            other => panic!("unknown locks op {other}"),
        }
    }
}

fn body(sh: &Shared, ix: usize, ops: &[Value]) {
    let mut mode = vec![0u8; sh.rws.len()];
    let mut mheld = vec![false; sh.mxs.len()];
    let mut pc = 0usize;
    let mut last_try_ok = true;
    for op in ops {
        pc += 1;
        let k = op["k"].as_str().unwrap();
        let o = op["o"].as_i64().unwrap_or(0);
        let v = op["v"].as_i64().unwrap_or(0);
        // operations marked "c" belong to the critical section opened by the latest try operation
        if op["c"].as_i64() == Some(1) && !last_try_ok {
            continue;
        }
        call(ix, pc, k, o, v);
        let r = exec(sh, &mut mode, &mut mheld, k, o, v);
        ret(ix, pc, k, r);
        if k.ends_with("_try") || k == "try_upgrade" {
            last_try_ok = r == 1;
        }
    }
    for i in 0..mode.len() {
        let k = match mode[i] {
            1 => "rd_unlock",
            2 => "up_unlock",
            3 => "wr_unlock",
            _ => continue,
        };
        pc += 1;
        call(ix, pc, k, i as i64, 0);
        let r = exec(sh, &mut mode, &mut mheld, k, i as i64, 0);
        ret(ix, pc, k, r);
    }
    for i in 0..mheld.len() {
        if mheld[i] {
            pc += 1;
            call(ix, pc, "pm_unlock", i as i64, 0);
            let r = exec(sh, &mut mode, &mut mheld, "pm_unlock", i as i64, 0);
            ret(ix, pc, "pm_unlock", r);
        }
    }
    log(json!({"e":"fin","t":ix}));
}

pub fn run_main(p: Arc<Value>) {
    let nrw = p["nrw"].as_u64().unwrap_or(0) as usize;
    let nmx = p["nmx"].as_u64().unwrap_or(0) as usize;
    let nmap = p["nmap"].as_u64().unwrap_or(0) as usize;
    let tasks = p["tasks"].as_array().unwrap().clone();
    let sh = Arc::new(Shared {
        rws: (0..nrw).map(|_| RawRwLock::INIT).collect(),
        data: (0..nrw).map(|_| AtomicI64::new(0)).collect(),
        mxs: (0..nmx).map(|_| RawMutex::INIT).collect(),
        maps: (0..nmap).map(|_| DashMap::new()).collect(),
    });
    log(json!({"e":"start"}));
    let mut threads = vec![];
    for t in 1..tasks.len() {
        let ops = tasks[t]["ops"].as_array().unwrap().clone();
        let sh2 = Arc::clone(&sh);
        threads.push(shuttle::thread::spawn(move || body(&sh2, t, &ops)));
    }
    let ops0 = tasks[0]["ops"].as_array().unwrap().clone();
    body(&sh, 0, &ops0);
    for th in threads {
        th.join().unwrap();
    }
}

fn arg<'a>(args: &'a [String], name: &str) -> Option<&'a str> {
    args.iter().position(|a| a == name).and_then(|i| args.get(i + 1)).map(|s| s.as_str())
}

/// `vwrap iter --history FILE`: apply an operation history (one JSON op per line: ins/rem k v, for a map and a set)
/// to two separate instances of the deterministic HashMap / HashSet and print contents and iteration orders.
/// The caller runs this in separate processes and compares the outputs.
pub fn cmd_iter(args: &[String]) {
    use deterministic_collections::{HashMap, HashSet};
    let path = arg(args, "--history").expect("--history");
    let text = std::fs::read_to_string(path).unwrap();
    let ops: Vec<Value> = text.lines().filter(|l| !l.trim().is_empty()).map(|l| serde_json::from_str(l).unwrap()).collect();
    let mut out = vec![];
    for inst in 0..2 {
        let mut m: HashMap<i64, i64> = if inst == 0 { HashMap::new() } else { HashMap::with_capacity(64) };
        let mut s: HashSet<i64> = HashSet::new();
        let mut results = vec![];
        for op in &ops {
            let k = op["k"].as_i64().unwrap_or(0);
            let v = op["v"].as_i64().unwrap_or(0);
            let r: i64 = match op["op"].as_str().unwrap() {
                "ins" => m.insert(k, v).unwrap_or(-1),
                "rem" => m.remove(&k).unwrap_or(-1),
                "get" => m.get(&k).copied().unwrap_or(-1),
                "len" => m.len() as i64,
                "sins" => s.insert(k) as i64,
                "srem" => s.remove(&k) as i64,
                "shas" => s.contains(&k) as i64,
                other => panic!("unknown history op {other}"),
            };
            results.push(r);
        }
        let morder: Vec<(i64, i64)> = m.iter().map(|(a, b)| (*a, *b)).collect();
        let sorder: Vec<i64> = s.iter().copied().collect();
        out.push(json!({"instance": inst, "results": results, "map_order": morder, "set_order": sorder}));
    }
    println!("{}", json!({"instances": out}));
}

// ---------------------------------------------------------------------------------------------
// rand / lazy_static replacements: replayed identically, re-initialised per execution

static LZ_INITS: std::sync::atomic::AtomicU64 = std::sync::atomic::AtomicU64::new(0);

pub struct LzProbe(u64);

shuttle_lazy_static_impl::lazy_static! {
    static ref LZP: LzProbe = {
        LZ_INITS.fetch_add(1, Ordering::SeqCst);
        log(json!({"e":"lzinit"}));
        LzProbe(shuttle_rand_0_8_inner::random::<u64>() % 1000)
    };
}

fn rand_body() {
    use shuttle_rand_0_8_inner::rngs::{SmallRng, StdRng};
    use shuttle_rand_0_8_inner::{thread_rng, Rng, RngCore, SeedableRng};
    let mut hs = vec![];
    for t in 0..2u64 {
        hs.push(shuttle::thread::spawn(move || {
            let a: u64 = thread_rng().gen::<u64>() % 1000;
            log(json!({"e":"val","t":t,"w":"thread_rng","v":a}));
            shuttle::thread::yield_now();
            let b = SmallRng::from_entropy().next_u32() % 1000;
            log(json!({"e":"val","t":t,"w":"small","v":b}));
            let c = StdRng::from_entropy().gen_range(0..1000u32);
            log(json!({"e":"val","t":t,"w":"std","v":c}));
            let d = shuttle_rand_0_8_inner::random::<u16>() % 1000;
            log(json!({"e":"val","t":t,"w":"random","v":d}));
            log(json!({"e":"val","t":t,"w":"lazy","v":LZP.0}));
        }));
    }
    for h in hs {
        h.join().unwrap();
    }
}

fn vals(evs: &[String]) -> Vec<String> {
    evs.iter().filter(|l| l.contains("\"e\":\"val\"") || l.contains("\"e\":\"lzinit\"")).cloned().collect()
}

/// `vwrap randcheck --iters N --seed S`: record N executions under the random scheduler, replay each from its schedule
/// string, compare every value drawn through the rand replacement and the lazy static's value; count initialisations.
pub fn cmd_randcheck(args: &[String]) {
    use shuttle::scheduler::{RandomScheduler, ReplayScheduler};
    let iters: usize = arg(args, "--iters").unwrap_or("50").parse().unwrap();
    let seed: u64 = arg(args, "--seed").unwrap_or("1").parse().unwrap();
    let mut cfg = shuttle::Config::new();
    cfg.failure_persistence = shuttle::FailurePersistence::None;
    crate::rec::reset_log();
    let runner = shuttle::Runner::new(crate::rec::Recorder::new(RandomScheduler::new_from_seed(seed, iters), 1), cfg.clone());
    runner.run(rand_body);
    crate::rec::finish_exec_quiet();
    let execs = crate::rec::take_done_full();
    let mut mismatches = 0;
    let mut lazy_bad = 0;
    let mut distinct = std::collections::BTreeSet::new();
    let mut examples = vec![];
    for (evs, sched, _) in &execs {
        let v = vals(evs);
        if v.iter().filter(|l| l.contains("lzinit")).count() != 1 {
            lazy_bad += 1;
        }
        for l in &v {
            distinct.insert(l.clone());
        }
        crate::rec::reset_log();
        let r = shuttle::Runner::new(crate::rec::Recorder::new(ReplayScheduler::new_from_encoded(sched), 1), cfg.clone());
        r.run(rand_body);
        crate::rec::finish_exec_quiet();
        let rep = crate::rec::take_done_full();
        if rep.len() != 1 || vals(&rep[0].0) != v {
            mismatches += 1;
            if examples.len() < 2 {
                examples.push(json!({"schedule": sched, "recorded": v, "replayed": rep.first().map(|x| vals(&x.0))}));
            }
        }
    }
    println!("{}", json!({"execs": execs.len(), "replay_mismatch": mismatches, "lazy_init_not_once": lazy_bad,
                          "distinct_lines": distinct.len(), "examples": examples}));
}
