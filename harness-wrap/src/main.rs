//! Conformance harness for the wrapper crates (C19: tokio replacements, C20: parking_lot / dashmap /
//! collections / rand / lazy_static).  Programs are interpreted over the real wrapper types under an
//! exhaustive (optionally preemption-bounded) walker; every operation is logged at its call and at its
//! return, and the specification (spec/TraceTokio.tla, spec/TraceLocks.tla) places the linearization point.
#[path = "../../harness/src/rec.rs"]
#[allow(dead_code)]
mod rec;
mod pl;
mod tk;

use rec::{Recorder, Walker};
use serde_json::{json, Value};
use shuttle::{Config, FailurePersistence, MaxSteps, Runner};
use std::io::{BufRead, BufReader, BufWriter, Write};
use std::panic;
use std::sync::Arc;

pub static IN_EXEC: std::sync::atomic::AtomicBool = std::sync::atomic::AtomicBool::new(false);

pub fn payload_msg(e: &Box<dyn std::any::Any + Send>) -> String {
    if let Some(s) = e.downcast_ref::<String>() {
        s.clone()
    } else if let Some(s) = e.downcast_ref::<&str>() {
        s.to_string()
    } else {
        "<non-string payload>".to_string()
    }
}

/// Parse "deadlock! blocked tasks: [name (task N, ...), ...]"
fn parse_deadlock(msg: &str) -> Vec<i64> {
    let mut out = vec![];
    let mut rest = msg;
    while let Some(p) = rest.find("(task ") {
        let tail = &rest[p + 6..];
        let end = tail.find(')').unwrap_or(tail.len());
        let inside = &tail[..end];
        let first = inside.split(',').next().unwrap_or("");
        let digits: String = first.chars().rev().take_while(|c| c.is_ascii_digit()).collect::<String>().chars().rev().collect();
        if let Ok(n) = digits.parse::<i64>() {
            out.push(n);
        }
        rest = &tail[end..];
    }
    out
}

fn end_event_for_panic(msg: &str) -> Value {
    if msg.starts_with("deadlock! blocked tasks") {
        json!({"e":"end","v":"deadlock","bl":parse_deadlock(msg)})
    } else if msg.starts_with("exceeded max_steps bound") {
        json!({"e":"end","v":"maxsteps"})
    } else {
        let short: String = msg.chars().take(200).collect();
        json!({"e":"end","v":"panic","msg":short})
    }
}

struct Trie {
    evs: Vec<String>,
    kids: Vec<Vec<usize>>,
    leaves: u64,
}

impl Trie {
    fn new() -> Self {
        Trie { evs: vec!["{\"e\":\"root\"}".to_string()], kids: vec![vec![]], leaves: 0 }
    }
    fn add(&mut self, evs: &[String]) {
        let mut n = 0usize;
        let mut fresh = false;
        for e in evs {
            let mut found = None;
            for &k in &self.kids[n] {
                if &self.evs[k] == e {
                    found = Some(k);
                    break;
                }
            }
            n = match found {
                Some(k) => k,
                None => {
                    let id = self.evs.len();
                    self.evs.push(e.clone());
                    self.kids.push(vec![]);
                    self.kids[n].push(id);
                    fresh = true;
                    id
                }
            };
        }
        if fresh {
            self.leaves += 1;
        }
    }
}

fn arg<'a>(args: &'a [String], name: &str) -> Option<&'a str> {
    args.iter().position(|a| a == name).and_then(|i| args.get(i + 1)).map(|s| s.as_str())
}

fn config() -> Config {
    let mut c = Config::new();
    c.stack_size = 0x10000;
    c.failure_persistence = FailurePersistence::None;
    c.max_steps = MaxSteps::FailAfter(5000);
    c.silence_warnings = true;
    c
}

/// Enumerate the schedules of one program; scheduling decisions are not part of the traces (the reference models are
/// at API level), so executions that differ only in them collapse in the prefix tree.
fn enumerate(pv: &Value, cap: u64, pbound: Option<u32>) -> (Trie, Value) {
    let id = pv["id"].as_i64().unwrap();
    let lang = pv["lang"].as_str().unwrap_or("tokio").to_string();
    let walker = Walker::new(cap);
    walker.st.lock().unwrap().pbound = pbound;
    let mut trie = Trie::new();
    let mut execs: u64 = 0;
    let mut fails: u64 = 0;
    let prog = Arc::new(pv.clone());
    rec::reset_log();
    loop {
        if walker.st.lock().unwrap().done {
            break;
        }
        let sched = Recorder::new(walker.clone(), id);
        let runner = Runner::new(sched, config());
        let pr = Arc::clone(&prog);
        let lg = lang.clone();
        IN_EXEC.store(true, std::sync::atomic::Ordering::Relaxed);
        let res = panic::catch_unwind(panic::AssertUnwindSafe(|| {
            runner.run(move || {
                if lg == "locks" {
                    pl::run_main(Arc::clone(&pr))
                } else {
                    tk::run_main(Arc::clone(&pr))
                }
            });
        }));
        IN_EXEC.store(false, std::sync::atomic::Ordering::Relaxed);
        match res {
            Ok(()) => rec::finish_exec_quiet(),
            Err(e) => {
                fails += 1;
                rec::finish_exec(end_event_for_panic(&payload_msg(&e)));
            }
        }
        for ex in rec::take_done() {
            execs += 1;
            let kept: Vec<String> = ex
                .into_iter()
                .filter(|l| !(l.contains("\"e\":\"dec\"") || l.contains("\"e\":\"rnd\"")))
                .map(|l| {
                    // the end event's drop counters belong to the other harness
                    if l.contains("\"e\":\"end\"") {
                        let mut v: Value = serde_json::from_str(&l).unwrap();
                        v.as_object_mut().unwrap().remove("tlslive");
                        v.as_object_mut().unwrap().remove("toklive");
                        v.to_string()
                    } else if l.contains("\"e\":\"exec\"") {
                        json!({"e":"exec","p":id}).to_string()
                    } else {
                        l
                    }
                })
                .collect();
            trie.add(&kept);
        }
    }
    let st = walker.st.lock().unwrap();
    let meta = json!({"prog": id, "execs": execs, "fails": fails, "capped": st.capped, "pbound": pbound,
                      "nondet": st.nondet, "nodes": trie.evs.len(), "leaves": trie.leaves});
    (trie, meta)
}

fn cmd_enum(args: &[String]) {
    let path = arg(args, "--progs").expect("--progs");
    let out = arg(args, "--out").expect("--out");
    let cap: u64 = arg(args, "--cap").unwrap_or("20000").parse().unwrap();
    let pb: Option<u32> = arg(args, "--pb").map(|s| s.parse().unwrap());
    let jobs: usize = arg(args, "--jobs").unwrap_or("8").parse().unwrap();
    let f = std::fs::File::open(path).unwrap_or_else(|e| panic!("cannot open {path}: {e}"));
    let progs: Vec<Value> = BufReader::new(f)
        .lines()
        .map(|l| l.unwrap())
        .filter(|l| !l.trim().is_empty())
        .map(|l| serde_json::from_str::<Value>(&l).unwrap())
        .collect();
    std::fs::create_dir_all(out).unwrap();
    if args.iter().any(|a| a == "--child") {
        // one program, in this process
        let idx: usize = arg(args, "--idx").unwrap().parse().unwrap();
        let (trie, meta) = enumerate(&progs[idx], cap, pb);
        let f = std::fs::File::create(format!("{out}/trie.{idx}.ndjson")).unwrap();
        let mut w = BufWriter::new(f);
        for i in 0..trie.evs.len() {
            writeln!(w, "{{\"kids\":{:?},\"ev\":{}}}", trie.kids[i], trie.evs[i]).unwrap();
        }
        std::fs::write(format!("{out}/meta.{idx}.json"), meta.to_string()).unwrap();
        return;
    }
    // parent: one child process per program (a crash or abort in one does not take the batch down)
    let exe = std::env::current_exe().unwrap();
    let mut metas: Vec<Value> = vec![Value::Null; progs.len()];
    let mut next = 0usize;
    let mut running: Vec<(usize, std::process::Child)> = vec![];
    while next < progs.len() || !running.is_empty() {
        while next < progs.len() && running.len() < jobs {
            let mut c = std::process::Command::new(&exe);
            c.args(["enum", "--child", "--progs", path, "--out", out, "--cap", &cap.to_string(), "--idx", &next.to_string()]);
            if let Some(p) = pb {
                c.args(["--pb", &p.to_string()]);
            }
            c.stdout(std::process::Stdio::null()).stderr(std::process::Stdio::piped());
            running.push((next, c.spawn().unwrap()));
            next += 1;
        }
        let (idx, child) = running.remove(0);
        let o = child.wait_with_output().unwrap();
        let mp = format!("{out}/meta.{idx}.json");
        if o.status.success() && std::path::Path::new(&mp).exists() {
            metas[idx] = serde_json::from_str(&std::fs::read_to_string(&mp).unwrap()).unwrap();
            let _ = std::fs::remove_file(&mp);
        } else {
            let err = String::from_utf8_lossy(&o.stderr);
            let tail: String = err.chars().rev().take(1500).collect::<String>().chars().rev().collect();
            metas[idx] = json!({"prog": progs[idx]["id"], "crashed": true, "stderr": tail});
        }
    }
    // merge the per-program tries under one root
    let mut evs: Vec<String> = vec!["{\"e\":\"root\"}".to_string()];
    let mut kids: Vec<Vec<usize>> = vec![vec![]];
    for idx in 0..progs.len() {
        let tp = format!("{out}/trie.{idx}.ndjson");
        if let Ok(f) = std::fs::File::open(&tp) {
            let base = evs.len() - 1; // node i (1-based, i >= 2) of the child file becomes base + i - 1 ... computed below
            let lines: Vec<String> = BufReader::new(f).lines().map(|l| l.unwrap()).collect();
            // child node numbering: line j (0-based) has id j; ids in `kids` are 0-based indices into the child's arrays
            for (j, l) in lines.iter().enumerate() {
                let v: Value = serde_json::from_str(l).unwrap();
                let ks: Vec<usize> = v["kids"].as_array().unwrap().iter().map(|x| x.as_u64().unwrap() as usize + base).collect();
                if j == 0 {
                    kids[0].extend(ks);
                } else {
                    evs.push(v["ev"].to_string());
                    kids.push(ks);
                }
            }
            let _ = std::fs::remove_file(&tp);
        }
    }
    let f = std::fs::File::create(format!("{out}/trie.ndjson")).unwrap();
    let mut w = BufWriter::new(f);
    for i in 0..evs.len() {
        // TLC's JSON arrays are 1-based: node ids are written 1-based
        let ks: Vec<usize> = kids[i].iter().map(|k| k + 1).collect();
        writeln!(w, "{{\"kids\":{:?},\"ev\":{}}}", ks, evs[i]).unwrap();
    }
    let f = std::fs::File::create(format!("{out}/meta.ndjson")).unwrap();
    let mut w = BufWriter::new(f);
    for m in metas {
        writeln!(w, "{}", m).unwrap();
    }
    std::fs::copy(path, format!("{out}/progs.ndjson")).unwrap();
}

fn main() {
    let args: Vec<String> = std::env::args().collect();
    panic::set_hook(Box::new(|info| {
        if std::env::var("VDEBUG").is_ok() || !IN_EXEC.load(std::sync::atomic::Ordering::Relaxed) {
            eprintln!("vwrap: {info}");
        }
    }));
    match args.get(1).map(|s| s.as_str()) {
        Some("enum") => cmd_enum(&args[2..]),
        Some("iter") => pl::cmd_iter(&args[2..]),
        Some("randcheck") => pl::cmd_randcheck(&args[2..]),
        _ => {
            eprintln!("usage: vwrap enum --progs F --out DIR [--cap N] [--pb N] [--jobs N] | vwrap iter ...");
            std::process::exit(2);
        }
    }
}
