//! Interpreter of tokio-wrapper programs (C19).  Every task runs an async body; thread tasks drive it with
//! shuttle::future::block_on, future tasks are spawned with shuttle::future::spawn.
use crate::rec::log;
use serde_json::{json, Value};
use shuttle_tokio_impl_inner::sync::{mpsc, oneshot, watch, Mutex, Notify, OnceCell, RwLock, Semaphore};
use std::sync::Arc;

enum Tx {
    B(mpsc::Sender<i64>),
    U(mpsc::UnboundedSender<i64>),
}
enum Rx {
    B(mpsc::Receiver<i64>),
    U(mpsc::UnboundedReceiver<i64>),
}

struct Shared {
    notifies: Vec<Notify>,
    sems: Vec<Arc<Semaphore>>,
    mutexes: Vec<Arc<Mutex<i64>>>,
    rwlocks: Vec<Arc<RwLock<i64>>>,
    cells: Vec<OnceCell<i64>>,
    aborts: std::sync::Mutex<Vec<Option<shuttle::future::AbortHandle>>>,
}

/// Logs that the task's future was dropped before its body finished (abort): declared first in the body, so it is
/// dropped after everything the body owned (pending operations, permits, guards).
struct CancelLog {
    ix: usize,
    done: bool,
}

impl Drop for CancelLog {
    fn drop(&mut self) {
        if !self.done && !std::thread::panicking() {
            log(json!({"e":"cancel","t":self.ix}));
        }
    }
}

/// What a task owns when it starts.
struct Handles {
    tx: Vec<Option<Tx>>,
    rx: Vec<Option<Rx>>,
    otx: Vec<Option<oneshot::Sender<i64>>>,
    orx: Vec<Option<oneshot::Receiver<i64>>>,
    wtx: Vec<Option<watch::Sender<i64>>>,
    wrx: Vec<Option<watch::Receiver<i64>>>,
}

fn call(t: usize, pc: usize, k: &str, o: i64, v: i64) {
    log(json!({"e":"call","t":t,"pc":pc,"k":k,"o":o,"v":v}));
}
fn ret(t: usize, pc: usize, k: &str, r: i64) {
    log(json!({"e":"ret","t":t,"pc":pc,"k":k,"r":r}));
}

async fn body(sh: Arc<Shared>, ix: usize, ops: Vec<Value>, mut h: Handles) {
    let mut cl = CancelLog { ix, done: false };
    let mut permits: Vec<Option<shuttle_tokio_impl_inner::sync::OwnedSemaphorePermit>> = (0..sh.sems.len()).map(|_| None).collect();
    let mut guards: Vec<Option<shuttle_tokio_impl_inner::sync::OwnedMutexGuard<i64>>> = (0..sh.mutexes.len()).map(|_| None).collect();
    let mut rguards: Vec<Option<shuttle_tokio_impl_inner::sync::OwnedRwLockReadGuard<i64>>> = (0..sh.rwlocks.len()).map(|_| None).collect();
    let mut wguards: Vec<Option<shuttle_tokio_impl_inner::sync::OwnedRwLockWriteGuard<i64>>> = (0..sh.rwlocks.len()).map(|_| None).collect();
    let mut pc = 0usize;
    for op in &ops {
        pc += 1;
        let k = op["k"].as_str().unwrap();
        let o = op["o"].as_i64().unwrap_or(0);
        let v = op["v"].as_i64().unwrap_or(0);
        let ou = o as usize;
        call(ix, pc, k, o, v);
        let r: i64 = match k {
            "send" => match h.tx[ou].as_ref().expect("send without a sender") {
                Tx::B(s) => match s.send(v).await {
                    Ok(()) => 0,
                    Err(_) => -1,
                },
                Tx::U(s) => match s.send(v) {
                    Ok(()) => 0,
                    Err(_) => -1,
                },
            },
            "bsend" => match h.tx[ou].as_ref().expect("send without a sender") {
                Tx::B(s) => match s.blocking_send(v) {
                    Ok(()) => 0,
                    Err(_) => -1,
                },
                Tx::U(s) => match s.send(v) {
                    Ok(()) => 0,
                    Err(_) => -1,
                },
            },
            "try_send" => match h.tx[ou].as_ref().expect("send without a sender") {
                Tx::B(s) => match s.try_send(v) {
                    Ok(()) => 0,
                    Err(mpsc::error::TrySendError::Full(_)) => -2,
                    Err(mpsc::error::TrySendError::Closed(_)) => -1,
                },
                Tx::U(s) => match s.send(v) {
                    Ok(()) => 0,
                    Err(_) => -1,
                },
            },
            "cap" => match h.tx[ou].as_ref().expect("cap without a sender") {
                Tx::B(s) => s.capacity() as i64,
                Tx::U(_) => -9,
            },
            "recv" => {
                let x = match h.rx[ou].as_mut().expect("recv without the receiver") {
                    Rx::B(r) => r.recv().await,
                    Rx::U(r) => r.recv().await,
                };
                x.unwrap_or(-1)
            }
            "brecv" => {
                let x = match h.rx[ou].as_mut().expect("recv without the receiver") {
                    Rx::B(r) => r.blocking_recv(),
                    Rx::U(r) => r.blocking_recv(),
                };
                x.unwrap_or(-1)
            }
            "try_recv" => {
                let x = match h.rx[ou].as_mut().expect("recv without the receiver") {
                    Rx::B(r) => r.try_recv(),
                    Rx::U(r) => r.try_recv(),
                };
                match x {
                    Ok(m) => m,
                    Err(mpsc::error::TryRecvError::Empty) => -2,
                    Err(mpsc::error::TryRecvError::Disconnected) => -1,
                }
            }
            "close" => {
                match h.rx[ou].as_mut().expect("close without the receiver") {
                    Rx::B(r) => r.close(),
                    Rx::U(r) => r.close(),
                }
                0
            }
            "drop_tx" => {
                drop(h.tx[ou].take());
                0
            }
            "drop_rx" => {
                drop(h.rx[ou].take());
                0
            }
            "os_send" => match h.otx[ou].take().expect("oneshot sender already used").send(v) {
                Ok(()) => 0,
                Err(_) => -1,
            },
            "os_recv" => match h.orx[ou].take().expect("oneshot receiver already used").await {
                Ok(m) => m,
                Err(_) => -1,
            },
            "os_try" => match h.orx[ou].as_mut().expect("oneshot receiver already used").try_recv() {
                Ok(m) => m,
                Err(oneshot::error::TryRecvError::Empty) => -2,
                Err(oneshot::error::TryRecvError::Closed) => -1,
            },
            "os_close" => {
                h.orx[ou].as_mut().expect("oneshot receiver already used").close();
                0
            }
            "os_drop_tx" => {
                drop(h.otx[ou].take());
                0
            }
            "os_drop_rx" => {
                drop(h.orx[ou].take());
                0
            }
            "nt_one" => {
                sh.notifies[ou].notify_one();
                0
            }
            "nt_all" => {
                sh.notifies[ou].notify_waiters();
                0
            }
            "nt_wait" => {
                sh.notifies[ou].notified().await;
                0
            }
            "sm_acq" => match Arc::clone(&sh.sems[ou]).acquire_many_owned(v as u32).await {
                Ok(p) => {
                    permits[ou] = Some(p);
                    0
                }
                Err(_) => -1,
            },
            "sm_try" => match Arc::clone(&sh.sems[ou]).try_acquire_many_owned(v as u32) {
                Ok(p) => {
                    permits[ou] = Some(p);
                    0
                }
                Err(shuttle_tokio_impl_inner::sync::TryAcquireError::NoPermits) => -2,
                Err(shuttle_tokio_impl_inner::sync::TryAcquireError::Closed) => -1,
            },
            "sm_rel" => {
                drop(permits[ou].take());
                0
            }
            "sm_add" => {
                sh.sems[ou].add_permits(v as usize);
                0
            }
            "sm_close" => {
                sh.sems[ou].close();
                0
            }
            "sm_avail" => sh.sems[ou].available_permits() as i64,
            "mx_lock" => {
                guards[ou] = Some(Arc::clone(&sh.mutexes[ou]).lock_owned().await);
                0
            }
            "mx_try" => match Arc::clone(&sh.mutexes[ou]).try_lock_owned() {
                Ok(g) => {
                    guards[ou] = Some(g);
                    0
                }
                Err(_) => -2,
            },
            "mx_unlock" => {
                drop(guards[ou].take());
                0
            }
            // ---- watch
            "w_send" => match h.wtx[ou].as_ref().expect("watch sender gone").send(v) {
                Ok(()) => 0,
                Err(_) => -1,
            },
            "w_borrow" => *h.wrx[ou].as_ref().expect("watch receiver gone").borrow(),
            "w_bupd" => *h.wrx[ou].as_mut().expect("watch receiver gone").borrow_and_update(),
            "w_changed" => match h.wrx[ou].as_mut().expect("watch receiver gone").changed().await {
                Ok(()) => 0,
                Err(_) => -1,
            },
            "w_has" => match h.wrx[ou].as_ref().expect("watch receiver gone").has_changed() {
                Ok(true) => 1,
                Ok(false) => 0,
                Err(_) => -1,
            },
            "w_drop_tx" => {
                drop(h.wtx[ou].take());
                0
            }
            "w_drop_rx" => {
                drop(h.wrx[ou].take());
                0
            }
            // ---- RwLock (the protected value makes exclusion visible)
            "rw_read" => {
                rguards[ou] = Some(Arc::clone(&sh.rwlocks[ou]).read_owned().await);
                0
            }
            "rw_try_read" => match Arc::clone(&sh.rwlocks[ou]).try_read_owned() {
                Ok(g) => {
                    rguards[ou] = Some(g);
                    0
                }
                Err(_) => -2,
            },
            "rw_write" => {
                wguards[ou] = Some(Arc::clone(&sh.rwlocks[ou]).write_owned().await);
                0
            }
            "rw_try_write" => match Arc::clone(&sh.rwlocks[ou]).try_write_owned() {
                Ok(g) => {
                    wguards[ou] = Some(g);
                    0
                }
                Err(_) => -2,
            },
            "rw_get" => match (&rguards[ou], &wguards[ou]) {
                (Some(g), _) => **g,
                (_, Some(g)) => **g,
                _ => -9,
            },
            "rw_set" => {
                if let Some(g) = wguards[ou].as_mut() {
                    **g = v;
                }
                0
            }
            "rw_downgrade" => {
                if let Some(g) = wguards[ou].take() {
                    rguards[ou] = Some(g.downgrade());
                }
                0
            }
            "rw_unlock" => {
                drop(rguards[ou].take());
                drop(wguards[ou].take());
                0
            }
            // ---- OnceCell ("w" = scheduling points inside the initialiser)
            "oc_get" => sh.cells[ou].get().copied().unwrap_or(-1),
            "oc_initd" => sh.cells[ou].initialized() as i64,
            "oc_set" => match sh.cells[ou].set(v) {
                Ok(()) => 0,
                Err(e) if e.is_already_init_err() => -1,
                Err(_) => -2,
            },
            "oc_init" => {
                let w = op["w"].as_i64().unwrap_or(0);
                *sh.cells[ou]
                    .get_or_init(|| async move {
                        for _ in 0..w {
                            shuttle::future::yield_now().await;
                        }
                        v
                    })
                    .await
            }
            "oc_try" => {
                let w = op["w"].as_i64().unwrap_or(0);
                let r = sh.cells[ou]
                    .get_or_try_init(|| async move {
                        for _ in 0..w {
                            shuttle::future::yield_now().await;
                        }
                        if v >= 0 {
                            Ok(v)
                        } else {
                            Err(())
                        }
                    })
                    .await;
                match r {
                    Ok(x) => *x,
                    Err(()) => -3,
                }
            }
            "abort" => {
                if let Some(a) = sh.aborts.lock().unwrap()[v as usize].as_ref() {
                    a.abort();
                }
                0
            }
            "yield" => {
                shuttle::future::yield_now().await;
                0
            }
            other => panic!("unknown tokio op {other}"),
        };
        ret(ix, pc, k, r);
    }
    // what the task still owns is released in a fixed order, each release a logged operation of its own
    for i in 0..rguards.len() {
        if rguards[i].is_some() || wguards[i].is_some() {
            pc += 1;
            call(ix, pc, "rw_unlock", i as i64, 0);
            drop(rguards[i].take());
            drop(wguards[i].take());
            ret(ix, pc, "rw_unlock", 0);
        }
    }
    for (i, g) in guards.iter_mut().enumerate() {
        if g.is_some() {
            pc += 1;
            call(ix, pc, "mx_unlock", i as i64, 0);
            drop(g.take());
            ret(ix, pc, "mx_unlock", 0);
        }
    }
    for (i, p) in permits.iter_mut().enumerate() {
        if p.is_some() {
            pc += 1;
            call(ix, pc, "sm_rel", i as i64, 0);
            drop(p.take());
            ret(ix, pc, "sm_rel", 0);
        }
    }
    for i in 0..h.tx.len() {
        if h.tx[i].is_some() {
            pc += 1;
            call(ix, pc, "drop_tx", i as i64, 0);
            drop(h.tx[i].take());
            ret(ix, pc, "drop_tx", 0);
        }
    }
    for i in 0..h.rx.len() {
        if h.rx[i].is_some() {
            pc += 1;
            call(ix, pc, "drop_rx", i as i64, 0);
            drop(h.rx[i].take());
            ret(ix, pc, "drop_rx", 0);
        }
    }
    for i in 0..h.otx.len() {
        if h.otx[i].is_some() {
            pc += 1;
            call(ix, pc, "os_drop_tx", i as i64, 0);
            drop(h.otx[i].take());
            ret(ix, pc, "os_drop_tx", 0);
        }
    }
    for i in 0..h.orx.len() {
        if h.orx[i].is_some() {
            pc += 1;
            call(ix, pc, "os_drop_rx", i as i64, 0);
            drop(h.orx[i].take());
            ret(ix, pc, "os_drop_rx", 0);
        }
    }
    for i in 0..h.wtx.len() {
        if h.wtx[i].is_some() {
            pc += 1;
            call(ix, pc, "w_drop_tx", i as i64, 0);
            drop(h.wtx[i].take());
            ret(ix, pc, "w_drop_tx", 0);
        }
    }
    for i in 0..h.wrx.len() {
        if h.wrx[i].is_some() {
            pc += 1;
            call(ix, pc, "w_drop_rx", i as i64, 0);
            drop(h.wrx[i].take());
            ret(ix, pc, "w_drop_rx", 0);
        }
    }
    log(json!({"e":"fin","t":ix}));
    cl.done = true;
}

fn ids(v: &Value, key: &str) -> Vec<usize> {
    v[key].as_array().map(|a| a.iter().map(|x| x.as_u64().unwrap() as usize).collect()).unwrap_or_default()
}

pub fn run_main(p: Arc<Value>) {
    let chans: Vec<i64> = p["chans"].as_array().map(|a| a.iter().map(|x| x.as_i64().unwrap()).collect()).unwrap_or_default();
    let nos = p["nos"].as_u64().unwrap_or(0) as usize;
    let nnt = p["nnt"].as_u64().unwrap_or(0) as usize;
    let sems: Vec<usize> = p["sems"].as_array().map(|a| a.iter().map(|x| x.as_u64().unwrap() as usize).collect()).unwrap_or_default();
    let nmx = p["nmx"].as_u64().unwrap_or(0) as usize;
    let nwt = p["nwt"].as_u64().unwrap_or(0) as usize;
    let nrwl = p["nrwl"].as_u64().unwrap_or(0) as usize;
    let noc = p["noc"].as_u64().unwrap_or(0) as usize;
    let tasks = p["tasks"].as_array().unwrap().clone();
    let n = tasks.len();
    let sh = Arc::new(Shared {
        notifies: (0..nnt).map(|_| Notify::new()).collect(),
        sems: sems.iter().map(|&k| Arc::new(Semaphore::new(k))).collect(),
        mutexes: (0..nmx).map(|_| Arc::new(Mutex::new(0))).collect(),
        rwlocks: (0..nrwl).map(|_| Arc::new(RwLock::new(0))).collect(),
        cells: (0..noc).map(|_| OnceCell::new()).collect(),
        aborts: std::sync::Mutex::new((0..n).map(|_| None).collect()),
    });
    let mut hs: Vec<Handles> = (0..n)
        .map(|_| Handles {
            tx: (0..chans.len()).map(|_| None).collect(),
            rx: (0..chans.len()).map(|_| None).collect(),
            otx: (0..nos).map(|_| None).collect(),
            orx: (0..nos).map(|_| None).collect(),
            wtx: (0..nwt).map(|_| None).collect(),
            wrx: (0..nwt).map(|_| None).collect(),
        })
        .collect();
    // channels: every task listed under "tx" gets its own clone; the original sender is dropped before anything runs
    for (c, &cap) in chans.iter().enumerate() {
        if cap >= 0 {
            let (tx, rx) = mpsc::channel::<i64>(cap as usize);
            for (t, tv) in tasks.iter().enumerate() {
                if ids(tv, "tx").contains(&c) {
                    hs[t].tx[c] = Some(Tx::B(tx.clone()));
                }
                if ids(tv, "rx").contains(&c) {
                    assert!(hs.iter().all(|h| h.rx[c].is_none()));
                }
            }
            let owner = tasks.iter().position(|tv| ids(tv, "rx").contains(&c)).expect("channel without a receiver");
            hs[owner].rx[c] = Some(Rx::B(rx));
            drop(tx);
        } else {
            let (tx, rx) = mpsc::unbounded_channel::<i64>();
            for (t, tv) in tasks.iter().enumerate() {
                if ids(tv, "tx").contains(&c) {
                    hs[t].tx[c] = Some(Tx::U(tx.clone()));
                }
            }
            let owner = tasks.iter().position(|tv| ids(tv, "rx").contains(&c)).expect("channel without a receiver");
            hs[owner].rx[c] = Some(Rx::U(rx));
            drop(tx);
        }
    }
    for o in 0..nos {
        let (tx, rx) = oneshot::channel::<i64>();
        let to = tasks.iter().position(|tv| ids(tv, "otx").contains(&o)).expect("oneshot without a sender");
        let ro = tasks.iter().position(|tv| ids(tv, "orx").contains(&o)).expect("oneshot without a receiver");
        hs[to].otx[o] = Some(tx);
        hs[ro].orx[o] = Some(rx);
    }
    // watch: one sender (task listed under "wtx"), every task under "wrx" gets a clone of the receiver made at the start
    for wi in 0..nwt {
        let (tx, rx) = watch::channel::<i64>(0);
        let to = tasks.iter().position(|tv| ids(tv, "wtx").contains(&wi)).expect("watch without a sender");
        hs[to].wtx[wi] = Some(tx);
        for (t, tv) in tasks.iter().enumerate() {
            if ids(tv, "wrx").contains(&wi) {
                hs[t].wrx[wi] = Some(rx.clone());
            }
        }
        drop(rx);
    }
    log(json!({"e":"start"}));
    let mut hs: Vec<Option<Handles>> = hs.into_iter().map(Some).collect();
    let mut threads = vec![];
    let mut futs = vec![];
    for t in 1..n {
        let ops = tasks[t]["ops"].as_array().unwrap().clone();
        let h = hs[t].take().unwrap();
        let sh2 = Arc::clone(&sh);
        if tasks[t]["kind"].as_str().unwrap_or("future") == "thread" {
            threads.push(shuttle::thread::spawn(move || shuttle::future::block_on(body(sh2, t, ops, h))));
        } else {
            let jh = shuttle::future::spawn(body(sh2, t, ops, h));
            sh.aborts.lock().unwrap()[t] = Some(jh.abort_handle());
            futs.push(jh);
        }
    }
    let ops0 = tasks[0]["ops"].as_array().unwrap().clone();
    let h0 = hs[0].take().unwrap();
    shuttle::future::block_on(body(Arc::clone(&sh), 0, ops0, h0));
    for th in threads {
        th.join().unwrap();
    }
    for f in futs {
        // (an aborted task answers Cancelled)
        let _ = shuttle::future::block_on(f);
    }
}
