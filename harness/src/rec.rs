//! Event log, the recording `Scheduler` shim and the independent tree-walking scheduler.
use serde_json::json;
use shuttle::scheduler::{Schedule, Scheduler, Task, TaskId};
use std::cell::RefCell;
use std::sync::{Arc, Mutex};

thread_local! {
    /// Events of the execution in progress (serialised JSON, one per event).
    static CUR: RefCell<Vec<String>> = const { RefCell::new(Vec::new()) };
    /// Completed executions that have not been consumed yet.
    static DONE: RefCell<Vec<Vec<String>>> = const { RefCell::new(Vec::new()) };
    static OPEN: RefCell<bool> = const { RefCell::new(false) };
    static LAST_CH: RefCell<i64> = const { RefCell::new(0) };
}

pub fn log(ev: serde_json::Value) {
    CUR.with(|c| c.borrow_mut().push(ev.to_string()));
}

pub fn is_open() -> bool {
    OPEN.with(|o| *o.borrow())
}

/// Close the execution in progress (if any) with the given end event.
pub fn finish_exec(end: serde_json::Value) {
    if !is_open() {
        return;
    }
    log(end);
    let evs = CUR.with(|c| std::mem::take(&mut *c.borrow_mut()));
    DONE.with(|d| d.borrow_mut().push(evs));
    OPEN.with(|o| *o.borrow_mut() = false);
}

/// Close the execution in progress as a non-failing one: "stopped" if the scheduler's last answer
/// was `None`, otherwise "ok" (the specification decides whether that is a completed execution or
/// one abandoned by a continue-after step bound).
pub fn finish_exec_quiet() {
    if !is_open() {
        return;
    }
    let last = LAST_CH.with(|l| *l.borrow());
    if last == -1 {
        finish_exec(json!({"e":"end","v":"stopped"}));
    } else {
        finish_exec(json!({"e":"end","v":"ok"}));
    }
}

pub fn take_done() -> Vec<Vec<String>> {
    DONE.with(|d| std::mem::take(&mut *d.borrow_mut()))
}

pub fn reset_log() {
    CUR.with(|c| c.borrow_mut().clear());
    DONE.with(|d| d.borrow_mut().clear());
    OPEN.with(|o| *o.borrow_mut() = false);
}

/// A `Scheduler` that records every call it sees and forwards it unchanged.
#[derive(Debug)]
pub struct Recorder<S> {
    pub inner: S,
    pub prog: i64,
    /// when true, `dec` events carry the per-task flags as seen through the public `Task` API
    pub flags: bool,
}

impl<S: Scheduler> Recorder<S> {
    pub fn new(inner: S, prog: i64) -> Self {
        Recorder { inner, prog, flags: true }
    }
}

impl<S: Scheduler> Scheduler for Recorder<S> {
    fn new_execution(&mut self) -> Option<Schedule> {
        finish_exec_quiet();
        let r = self.inner.new_execution();
        match &r {
            Some(s) => {
                OPEN.with(|o| *o.borrow_mut() = true);
                LAST_CH.with(|l| *l.borrow_mut() = 0);
                log(json!({"e":"exec","p":self.prog,"seed":s.seed.to_string(),"pre":s.steps.len()}));
            }
            None => {}
        }
        r
    }

    fn next_task(&mut self, runnable: &[&Task], current: Option<TaskId>, is_yielding: bool) -> Option<TaskId> {
        let run: Vec<usize> = runnable.iter().map(|t| usize::from(t.id())).collect();
        let sp: Vec<usize> = runnable
            .iter()
            .filter(|t| t.can_spuriously_wakeup())
            .map(|t| usize::from(t.id()))
            .collect();
        let nr: Vec<usize> = runnable
            .iter()
            .filter(|t| !t.runnable())
            .map(|t| usize::from(t.id()))
            .collect();
        let det: Vec<usize> = runnable
            .iter()
            .filter(|t| t.is_detached())
            .map(|t| usize::from(t.id()))
            .collect();
        let ch = self.inner.next_task(runnable, current, is_yielding);
        let chv: i64 = ch.map(|t| usize::from(t) as i64).unwrap_or(-1);
        LAST_CH.with(|l| *l.borrow_mut() = chv);
        let cur: i64 = current.map(|t| usize::from(t) as i64).unwrap_or(-1);
        log(json!({"e":"dec","run":run,"sp":sp,"nr":nr,"det":det,"cur":cur,"y":is_yielding,"ch":chv}));
        ch
    }

    fn next_u64(&mut self) -> u64 {
        let v = self.inner.next_u64();
        log(json!({"e":"rnd","v":v.to_string()}));
        v
    }
}

#[derive(Debug, Clone)]
struct Level {
    offered: Vec<usize>,
    idx: usize,
}

#[derive(Debug, Default)]
pub struct WState {
    stack: Vec<Level>,
    depth: usize,
    started: bool,
    pub done: bool,
    pub execs: u64,
    pub cap: u64,
    pub capped: bool,
    pub nondet: Option<String>,
    nrand: u64,
    /// when set, follow exactly this choice prefix and then always pick the first offered task
    pub seed: u64,
}

/// Independent exhaustive enumerator of the runtime's schedule tree (shares no code with
/// `DfsScheduler`). Its whole state lives behind an `Arc<Mutex<..>>` so that enumeration can
/// continue in a new `Runner` after a failing execution has consumed the previous one.
#[derive(Debug, Clone)]
pub struct Walker {
    pub st: Arc<Mutex<WState>>,
}

impl Walker {
    pub fn new(cap: u64) -> Self {
        Walker {
            st: Arc::new(Mutex::new(WState { cap, seed: 0x5eed, ..Default::default() })),
        }
    }
}

fn splitmix(mut x: u64) -> u64 {
    x = x.wrapping_add(0x9e3779b97f4a7c15);
    let mut z = x;
    z = (z ^ (z >> 30)).wrapping_mul(0xbf58476d1ce4e5b9);
    z = (z ^ (z >> 27)).wrapping_mul(0x94d049bb133111eb);
    z ^ (z >> 31)
}

impl Scheduler for Walker {
    fn new_execution(&mut self) -> Option<Schedule> {
        let mut st = self.st.lock().unwrap();
        if st.started {
            // backtrack
            let d = st.depth;
            st.stack.truncate(d);
            loop {
                match st.stack.last_mut() {
                    None => {
                        st.done = true;
                        break;
                    }
                    Some(l) => {
                        if l.idx + 1 >= l.offered.len() {
                            st.stack.pop();
                        } else {
                            l.idx += 1;
                            break;
                        }
                    }
                }
            }
        }
        st.started = true;
        if st.done {
            return None;
        }
        if st.execs >= st.cap {
            st.capped = true;
            st.done = true;
            return None;
        }
        st.execs += 1;
        st.depth = 0;
        st.nrand = 0;
        Some(Schedule::new(st.seed))
    }

    fn next_task(&mut self, runnable: &[&Task], _current: Option<TaskId>, _is_yielding: bool) -> Option<TaskId> {
        let mut st = self.st.lock().unwrap();
        let offered: Vec<usize> = runnable.iter().map(|t| usize::from(t.id())).collect();
        let d = st.depth;
        let choice = if d < st.stack.len() {
            if st.stack[d].offered != offered {
                if st.nondet.is_none() {
                    st.nondet = Some(format!(
                        "offered list changed on replayed prefix at depth {}: {:?} vs {:?}",
                        d, st.stack[d].offered, offered
                    ));
                }
                // re-plant the level so that enumeration can go on
                st.stack.truncate(d);
                st.stack.push(Level { offered: offered.clone(), idx: 0 });
                offered[0]
            } else {
                let l = &st.stack[d];
                l.offered[l.idx]
            }
        } else {
            st.stack.push(Level { offered: offered.clone(), idx: 0 });
            offered[0]
        };
        st.depth += 1;
        Some(TaskId::from(choice))
    }

    fn next_u64(&mut self) -> u64 {
        let mut st = self.st.lock().unwrap();
        st.nrand += 1;
        splitmix(st.seed ^ st.nrand)
    }
}
