//! Event log, the recording `Scheduler` shim and the independent tree-walking scheduler.
use serde_json::json;
use shuttle::scheduler::{Schedule, Scheduler, Task, TaskId};
use std::cell::RefCell;
use std::sync::{Arc, Mutex};

thread_local! {
    /// Events of the execution in progress (serialised JSON, one per event).
    static CUR: RefCell<Vec<String>> = const { RefCell::new(Vec::new()) };
    /// Completed executions that have not been consumed yet.
    static DONE: RefCell<Vec<Vec<String>>> = const { RefCell::new(Vec::new()) };
    static OPEN: RefCell<bool> = const { RefCell::new(false) };
    /// the scheduler calls of the execution in progress, as the recorder saw them (None = random draw)
    static OWN: RefCell<(u64, Vec<Option<usize>>)> = const { RefCell::new((0, Vec::new())) };
    static DONE_SCHED: RefCell<Vec<(String, bool)>> = const { RefCell::new(Vec::new()) };
    static PLAIN: RefCell<bool> = const { RefCell::new(false) };
    static LAST_CH: RefCell<i64> = const { RefCell::new(0) };
}

/// thread-local instances created minus dropped in the current execution (maintained by the interpreter)
pub static TLS_LIVE: std::sync::atomic::AtomicI64 = std::sync::atomic::AtomicI64::new(0);

/// task-owned tokens created minus dropped (see interp::Token)
pub static TOK_LIVE: std::sync::atomic::AtomicI64 = std::sync::atomic::AtomicI64::new(0);
/// executions closed so far: a token belongs to the execution in which it was created
pub static TOK_EPOCH: std::sync::atomic::AtomicU64 = std::sync::atomic::AtomicU64::new(0);

pub fn log(ev: serde_json::Value) {
    if std::env::var("LOGDEBUG").is_ok() {
        eprintln!("LOG {}", ev);
    }
    CUR.with(|c| c.borrow_mut().push(ev.to_string()));
}

pub fn is_open() -> bool {
    OPEN.with(|o| *o.borrow())
}

/// Close the execution in progress (if any) with the given end event.
pub fn finish_exec(end: serde_json::Value) {
    if !is_open() {
        return;
    }
    let mut end = end;
    end["tlslive"] = json!(TLS_LIVE.swap(0, std::sync::atomic::Ordering::SeqCst));
    let tok = TOK_LIVE.swap(0, std::sync::atomic::Ordering::SeqCst);
    if std::env::var("TOKDEBUG").is_ok() {
        eprintln!("TOK finish epoch={} live={} end={}", TOK_EPOCH.load(std::sync::atomic::Ordering::SeqCst), tok, end);
    }
    TOK_EPOCH.fetch_add(1, std::sync::atomic::Ordering::SeqCst);
    // a failing execution leaks its unfinished tasks by design (ungraceful shutdown): only clean ends are accounted
    if end["v"] == "ok" || end["v"] == "stopped" {
        end["toklive"] = json!(tok);
        // An earlier execution of this run was abandoned while a task was unwinding from a panic: that unwinding never
        // finished, so std::thread::panicking() stays true on this OS thread and the runtime treats every later
        // teardown as a panicking one (in-flight stacks are leaked instead of unwound).
        if std::thread::panicking() {
            end["degraded"] = json!(1);
        }
    }
    log(end);
    // the runtime's own record of this execution (still in place until the next execution starts)
    let sched = shuttle_engine::runtime::execution::CurrentSchedule::get_schedule();
    let own_ok = OWN.with(|o| {
        let o = o.borrow();
        use shuttle_engine::scheduler::ScheduleStep;
        sched.seed == o.0
            && sched.steps.len() == o.1.len()
            && sched.steps.iter().zip(o.1.iter()).all(|(a, b)| match (a, b) {
                (ScheduleStep::Task(t), Some(x)) => usize::from(*t) == *x,
                (ScheduleStep::Random, None) => true,
                _ => false,
            })
    });
    let ser = shuttle_engine::scheduler::serialization::serialize_schedule(&sched);
    DONE_SCHED.with(|d| d.borrow_mut().push((ser, own_ok)));
    let evs = CUR.with(|c| std::mem::take(&mut *c.borrow_mut()));
    DONE.with(|d| d.borrow_mut().push(evs));
    OPEN.with(|o| *o.borrow_mut() = false);
}

/// Close the execution in progress as a non-failing one: "stopped" if the scheduler's last answer
/// was `None`, otherwise "ok" (the specification decides whether that is a completed execution or
/// one abandoned by a continue-after step bound).
pub fn finish_exec_quiet() {
    if !is_open() {
        return;
    }
    let last = LAST_CH.with(|l| *l.borrow());
    if last == -1 {
        finish_exec(json!({"e":"end","v":"stopped"}));
    } else {
        finish_exec(json!({"e":"end","v":"ok"}));
    }
}

pub fn take_done() -> Vec<Vec<String>> {
    DONE_SCHED.with(|d| d.borrow_mut().clear());
    DONE.with(|d| std::mem::take(&mut *d.borrow_mut()))
}

/// (events, serialized schedule as recorded by the runtime, does it equal the scheduler calls seen?)
pub fn take_done_full() -> Vec<(Vec<String>, String, bool)> {
    let evs = DONE.with(|d| std::mem::take(&mut *d.borrow_mut()));
    let sch = DONE_SCHED.with(|d| std::mem::take(&mut *d.borrow_mut()));
    evs.into_iter().zip(sch).map(|(e, (s, ok))| (e, s, ok)).collect()
}

/// Collect the bodies' own log lines without a recorder around the scheduler.
pub fn open_plain() {
    PLAIN.with(|p| *p.borrow_mut() = true);
}

fn tok_reset() {
    TOK_LIVE.store(0, std::sync::atomic::Ordering::SeqCst);
    TOK_EPOCH.fetch_add(1, std::sync::atomic::Ordering::SeqCst);
    TLS_LIVE.store(0, std::sync::atomic::Ordering::SeqCst);
}

pub fn take_plain() -> Vec<String> {
    tok_reset();
    PLAIN.with(|p| *p.borrow_mut() = false);
    CUR.with(|c| std::mem::take(&mut *c.borrow_mut()))
}

/// Fresh log state for the calling thread without touching the process-wide drop-token counters.
pub fn reset_log_keep_tokens() {
    CUR.with(|c| c.borrow_mut().clear());
    DONE.with(|d| d.borrow_mut().clear());
    DONE_SCHED.with(|d| d.borrow_mut().clear());
    OPEN.with(|o| *o.borrow_mut() = false);
}

pub fn reset_log() {
    tok_reset();
    CUR.with(|c| c.borrow_mut().clear());
    DONE.with(|d| d.borrow_mut().clear());
    DONE_SCHED.with(|d| d.borrow_mut().clear());
    OPEN.with(|o| *o.borrow_mut() = false);
}

/// A `Scheduler` that records every call it sees and forwards it unchanged.
#[derive(Debug)]
pub struct Recorder<S> {
    pub inner: S,
    pub prog: i64,
    /// when true, `dec` events carry the per-task flags as seen through the public `Task` API
    pub flags: bool,
}

impl<S: Scheduler> Recorder<S> {
    pub fn new(inner: S, prog: i64) -> Self {
        Recorder { inner, prog, flags: true }
    }
}

impl<S: Scheduler> Scheduler for Recorder<S> {
    fn new_execution(&mut self) -> Option<Schedule> {
        finish_exec_quiet();
        let r = self.inner.new_execution();
        match &r {
            Some(s) => {
                OPEN.with(|o| *o.borrow_mut() = true);
                LAST_CH.with(|l| *l.borrow_mut() = 0);
                OWN.with(|o| *o.borrow_mut() = (s.seed, s.steps.iter().map(|st| match st {
                    shuttle_engine::scheduler::ScheduleStep::Task(t) => Some(usize::from(*t)),
                    shuttle_engine::scheduler::ScheduleStep::Random => None,
                }).collect()));
                log(json!({"e":"exec","p":self.prog,"seed":s.seed.to_string(),"pre":s.steps.len()}));
            }
            None => {}
        }
        r
    }

    fn next_task(&mut self, runnable: &[&Task], current: Option<TaskId>, is_yielding: bool) -> Option<TaskId> {
        let run: Vec<usize> = runnable.iter().map(|t| usize::from(t.id())).collect();
        let sp: Vec<usize> = runnable
            .iter()
            .filter(|t| t.can_spuriously_wakeup())
            .map(|t| usize::from(t.id()))
            .collect();
        let nr: Vec<usize> = runnable
            .iter()
            .filter(|t| !t.runnable())
            .map(|t| usize::from(t.id()))
            .collect();
        let det: Vec<usize> = runnable
            .iter()
            .filter(|t| t.is_detached())
            .map(|t| usize::from(t.id()))
            .collect();
        let ch = self.inner.next_task(runnable, current, is_yielding);
        let chv: i64 = ch.map(|t| usize::from(t) as i64).unwrap_or(-1);
        LAST_CH.with(|l| *l.borrow_mut() = chv);
        if let Some(t) = ch {
            OWN.with(|o| o.borrow_mut().1.push(Some(usize::from(t))));
        }
        let cur: i64 = current.map(|t| usize::from(t) as i64).unwrap_or(-1);
        log(json!({"e":"dec","run":run,"sp":sp,"nr":nr,"det":det,"cur":cur,"y":is_yielding,"ch":chv}));
        ch
    }

    fn next_u64(&mut self) -> u64 {
        let v = self.inner.next_u64();
        OWN.with(|o| o.borrow_mut().1.push(None));
        log(json!({"e":"rnd","v":v.to_string(),"m":v % 4}));
        v
    }
}

#[derive(Debug, Clone)]
pub struct Level {
    offered: Vec<usize>,
    /// the subset of `offered` the walker will try (all of it unless the preemption budget is used up)
    allowed: Vec<usize>,
    idx: usize,
    /// preemptions used on the path before this decision
    pre: u32,
}

#[derive(Debug, Default)]
pub struct WState {
    stack: Vec<Level>,
    depth: usize,
    started: bool,
    pub done: bool,
    pub execs: u64,
    pub cap: u64,
    pub capped: bool,
    pub nondet: Option<String>,
    nrand: u64,
    path_pre: u32,
    /// when set, follow exactly this choice prefix and then always pick the first offered task
    pub seed: u64,
    /// preemption bound (CHESS-style): switching away from a current task that is still offered costs one
    pub pbound: Option<u32>,
}

/// Independent exhaustive enumerator of the runtime's schedule tree (shares no code with
/// `DfsScheduler`). Its whole state lives behind an `Arc<Mutex<..>>` so that enumeration can
/// continue in a new `Runner` after a failing execution has consumed the previous one.
#[derive(Debug, Clone)]
pub struct Walker {
    pub st: Arc<Mutex<WState>>,
}

impl Walker {
    pub fn new(cap: u64) -> Self {
        Walker {
            st: Arc::new(Mutex::new(WState { cap, seed: 0x5eed, ..Default::default() })),
        }
    }
}

fn splitmix(mut x: u64) -> u64 {
    x = x.wrapping_add(0x9e3779b97f4a7c15);
    let mut z = x;
    z = (z ^ (z >> 30)).wrapping_mul(0xbf58476d1ce4e5b9);
    z = (z ^ (z >> 27)).wrapping_mul(0x94d049bb133111eb);
    z ^ (z >> 31)
}

impl Scheduler for Walker {
    fn new_execution(&mut self) -> Option<Schedule> {
        let mut st = self.st.lock().unwrap();
        if st.started {
            // backtrack
            let d = st.depth;
            st.stack.truncate(d);
            loop {
                match st.stack.last_mut() {
                    None => {
                        st.done = true;
                        break;
                    }
                    Some(l) => {
                        if l.idx + 1 >= l.allowed.len() {
                            st.stack.pop();
                        } else {
                            l.idx += 1;
                            break;
                        }
                    }
                }
            }
        }
        st.started = true;
        if st.done {
            return None;
        }
        if st.execs >= st.cap {
            st.capped = true;
            st.done = true;
            return None;
        }
        st.execs += 1;
        st.depth = 0;
        st.nrand = 0;
        st.path_pre = 0;
        Some(Schedule::new(st.seed))
    }

    fn next_task(&mut self, runnable: &[&Task], current: Option<TaskId>, _is_yielding: bool) -> Option<TaskId> {
        let mut st = self.st.lock().unwrap();
        let offered: Vec<usize> = runnable.iter().map(|t| usize::from(t.id())).collect();
        let d = st.depth;
        let cur = current.map(usize::from);
        // preemptions used so far on this path
        let pre = if d == 0 { 0 } else { st.path_pre };
        let cur_offered = cur.map(|c| runnable.iter().any(|t| usize::from(t.id()) == c && t.runnable())).unwrap_or(false);
        let allowed: Vec<usize> = match st.pbound {
            Some(b) if pre >= b && cur_offered => vec![cur.unwrap()],
            // the current task first: schedules without preemption are explored first
            _ if cur_offered => {
                let c = cur.unwrap();
                let mut v = vec![c];
                v.extend(offered.iter().copied().filter(|&x| x != c));
                v
            }
            _ => offered.clone(),
        };
        let choice = if d < st.stack.len() {
            if st.stack[d].offered != offered {
                if st.nondet.is_none() {
                    st.nondet = Some(format!(
                        "offered list changed on replayed prefix at depth {}: {:?} vs {:?}",
                        d, st.stack[d].offered, offered
                    ));
                }
                // re-plant the level so that enumeration can go on
                st.stack.truncate(d);
                st.stack.push(Level { offered: offered.clone(), allowed: allowed.clone(), idx: 0, pre });
                allowed[0]
            } else {
                let l = &st.stack[d];
                l.allowed[l.idx]
            }
        } else {
            st.stack.push(Level { offered: offered.clone(), allowed: allowed.clone(), idx: 0, pre });
            allowed[0]
        };
        if cur_offered && Some(choice) != cur {
            st.path_pre = pre + 1;
        } else {
            st.path_pre = pre;
        }
        st.depth += 1;
        Some(TaskId::from(choice))
    }

    fn next_u64(&mut self) -> u64 {
        let mut st = self.st.lock().unwrap();
        st.nrand += 1;
        splitmix(st.seed ^ st.nrand)
    }
}

// ------------------------------------------------------------------------------------------
// Binding C: drive the runtime along an interleaving produced by the specification.

pub fn cur_len() -> usize {
    CUR.with(|c| c.borrow().len())
}

pub fn cur_from(i: usize) -> Vec<String> {
    CUR.with(|c| c.borrow()[i.min(c.borrow().len())..].to_vec())
}

#[derive(Debug, Default)]
pub struct DState {
    pub witness: Vec<(usize, usize, String)>,
    pub k: usize,
    seen: usize,
    code_rt: std::collections::HashMap<usize, usize>,
    last_kind: std::collections::HashMap<usize, String>,
    pub divergence: Option<serde_json::Value>,
    pub child_of: Vec<Vec<i64>>, // per code index, per pc-1: spawned child code index or -1
    started: bool,
    /// purely local steps (no shared effect) that the runtime completed earlier than the witness lists them
    early: std::collections::HashSet<(usize, usize)>,
}

#[derive(Debug, Clone)]
pub struct Directed {
    pub st: Arc<Mutex<DState>>,
}

impl Directed {
    pub fn new(witness: Vec<(usize, usize, String)>, child_of: Vec<Vec<i64>>) -> Self {
        let mut st = DState { witness, child_of, ..Default::default() };
        st.code_rt.insert(0, 0);
        Directed { st: Arc::new(Mutex::new(st)) }
    }
}

impl DState {
    /// Consume the op events logged since the last call and match them against the witness.
    pub fn absorb(&mut self) {
        let evs = cur_from(self.seen);
        self.seen += evs.len();
        for e in evs {
            let v: serde_json::Value = serde_json::from_str(&e).unwrap();
            if v["e"] != "op" {
                continue;
            }
            let c = v["c"].as_u64().unwrap() as usize;
            let pc = v["pc"].as_u64().unwrap() as usize;
            let kind = v["k"].as_str().unwrap().to_string();
            if kind.starts_with("spawn") || kind == "sspawn" {
                // task ids are handed out in creation order
                let child = self.child_of[c][pc - 1];
                if child >= 0 {
                    let id = self.code_rt.len();
                    self.code_rt.insert(child as usize, id);
                }
            }
            if self.divergence.is_none() {
                // internal steps of the running task leave no log line
                while self.k < self.witness.len() && self.witness[self.k].0 == c && self.witness[self.k].2 != "C" {
                    self.k += 1;
                }
                while self.k < self.witness.len() && self.early.contains(&(self.witness[self.k].0, self.witness[self.k].1)) {
                    self.k += 1;
                }
                if self.k < self.witness.len() {
                    let w = &self.witness[self.k];
                    if w.0 == c && w.1 == pc && w.2 == "C" {
                        self.k += 1;
                    } else if matches!(kind.as_str(), "ret" | "nop" | "acc" | "me" | "gget" | "ginc") {
                        // commutes with every step of every other task: order is immaterial
                        self.early.insert((c, pc));
                    } else {
                        let prev = self.last_kind.get(&c).cloned().unwrap_or_else(|| "start".to_string());
                        self.divergence = Some(json!({"kind":"ran-ahead","task":c,"pc":pc,"prev":prev,"this":kind,
                            "wanted":[w.0,w.1,w.2],"at":self.k}));
                    }
                }
            }
            self.last_kind.insert(c, kind);
        }
    }
}

impl Scheduler for Directed {
    fn new_execution(&mut self) -> Option<Schedule> {
        let mut st = self.st.lock().unwrap();
        if st.started {
            return None;
        }
        st.started = true;
        Some(Schedule::new(0x5eed))
    }

    fn next_task(&mut self, runnable: &[&Task], current: Option<TaskId>, _is_yielding: bool) -> Option<TaskId> {
        let mut st = self.st.lock().unwrap();
        st.absorb();
        let offered: Vec<usize> = runnable.iter().map(|t| usize::from(t.id())).collect();
        let fallback = runnable.iter().find(|t| t.runnable()).map(|t| t.id()).unwrap_or_else(|| runnable[0].id());
        let cur_code: Option<usize> = current.map(usize::from).and_then(|rt| st.code_rt.iter().find(|(_, &r)| r == rt).map(|(&c, _)| c));
        loop {
            while st.k < st.witness.len() && st.early.contains(&(st.witness[st.k].0, st.witness[st.k].1)) {
                st.k += 1;
            }
            if st.divergence.is_some() || st.k >= st.witness.len() {
                return Some(fallback);
            }
            let (c, pc, kind) = st.witness[st.k].clone();
            let rt = st.code_rt.get(&c).copied();
            if kind != "C" {
                if Some(c) == cur_code {
                    st.k += 1;
                    continue;
                }
                st.k += 1;
                match rt {
                    Some(r) if offered.contains(&r) => return Some(TaskId::from(r)),
                    _ => continue,
                }
            }
            match rt {
                Some(r) if offered.contains(&r) => return Some(TaskId::from(r)),
                _ => {
                    let k = st.k;
                    st.divergence = Some(json!({"kind":"not-offered","want":[c,pc,kind],"offered":offered,"at":k}));
                    return Some(fallback);
                }
            }
        }
    }

    fn next_u64(&mut self) -> u64 {
        0
    }
}
