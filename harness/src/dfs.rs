//! C09: the real DfsScheduler against an independently enumerated choice tree, on a grid of bounds.
use crate::prog::Prog;
use crate::rec::{self, Recorder, Walker};
use crate::{interp, sample};
use serde_json::{json, Value};
use shuttle::{MaxSteps, Runner};
use shuttle_schedulers::DfsScheduler;
use std::panic;
use std::sync::atomic::Ordering;
use std::sync::Arc;

fn choices(evs: &[String]) -> (Vec<i64>, Vec<String>, String, Vec<Value>) {
    let mut ch = vec![];
    let mut rnd = vec![];
    let mut seed = String::new();
    let mut decs = vec![];
    for e in evs {
        let v: Value = serde_json::from_str(e).unwrap();
        match v["e"].as_str().unwrap() {
            "dec" => {
                ch.push(v["ch"].as_i64().unwrap());
                decs.push(json!({"e":"next","run":v["run"],"ch":v["ch"]}));
            }
            "rnd" => rnd.push(v["v"].as_str().unwrap().to_string()),
            "exec" => seed = v["seed"].as_str().unwrap().to_string(),
            _ => {}
        }
    }
    (ch, rnd, seed, decs)
}

fn walk(p: &Arc<Prog>, cfg: &shuttle::Config, cap: u64) -> (Vec<Vec<i64>>, bool) {
    let walker = Walker::new(cap);
    let mut out = vec![];
    rec::reset_log();
    loop {
        if walker.st.lock().unwrap().done {
            break;
        }
        let runner = Runner::new(Recorder::new(walker.clone(), p.id), cfg.clone());
        let pr = Arc::clone(p);
        crate::IN_EXEC.store(true, Ordering::Relaxed);
        let res = panic::catch_unwind(panic::AssertUnwindSafe(|| {
            runner.run(move || interp::run_main(Arc::clone(&pr)));
        }));
        crate::IN_EXEC.store(false, Ordering::Relaxed);
        match res {
            Ok(()) => rec::finish_exec_quiet(),
            Err(e) => rec::finish_exec(crate::end_event_for_panic(&crate::payload_msg(&e))),
        }
        for ex in rec::take_done() {
            out.push(choices(&ex).0);
        }
    }
    let capped = walker.st.lock().unwrap().capped;
    (out, capped)
}

pub fn walk_leaves(p: &Prog, cap: u64) -> (Vec<Vec<i64>>, bool) {
    let prog = Arc::new(p.clone());
    walk(&prog, &crate::config_for(p), cap)
}

pub fn dfs_program(p: &Prog, cap: u64) -> (Value, Vec<Value>) {
    let prog = Arc::new(p.clone());
    let base = crate::config_for(p);
    let (w0, capped0) = walk(&prog, &base, cap);
    let l = w0.len();
    let mut grid: Vec<(Option<usize>, Option<usize>)> = vec![(None, None), (Some(0), None), (Some(1), None), (Some(2), None)];
    if l >= 2 {
        grid.push((Some(l - 1), None));
    }
    grid.push((Some(l), None));
    grid.push((Some(l + 1), None));
    for n in [1usize, 2, 3, 5] {
        grid.push((None, Some(n)));
    }
    grid.push((Some(3), Some(2)));
    let mut runs = vec![];
    let mut log: Vec<Value> = vec![];
    if capped0 {
        return (json!({"prog": p.id, "capped": true, "runs": []}), log);
    }
    for (mi, sb) in grid {
        let mut cfg = base.clone();
        if let Some(n) = sb {
            cfg.max_steps = MaxSteps::ContinueAfter(n);
        }
        let (w, wc) = if sb.is_none() { (w0.clone(), false) } else { walk(&prog, &cfg, cap) };
        if wc {
            continue;
        }
        let execs = sample::run_all(&prog, Box::new(DfsScheduler::new(mi, true)), &cfg, cap as usize + 10);
        log.push(json!({"e":"run","maxiter": mi.map(|x| x as i64).unwrap_or(100000000), "prog": p.id}));
        let mut d = vec![];
        let mut seeds = vec![];
        let mut rnds = vec![];
        for ex in &execs {
            let (ch, rnd, seed, decs) = choices(&ex.events);
            log.push(json!({"e":"newexec","r":1}));
            log.extend(decs);
            d.push(ch);
            seeds.push(seed);
            rnds.push(rnd);
        }
        log.push(json!({"e":"newexec","r":0}));
        runs.push(json!({"maxiter": mi, "stepbound": sb, "walker": w, "dfs": d, "seeds": seeds, "rnds": rnds}));
    }
    (json!({"prog": p.id, "capped": false, "leaves": l, "runs": runs}), log)
}
