//! A deliberately dumb interpreter: one `match` arm per operation kind, calling the real Shuttle
//! primitive and logging the result verbatim.
use crate::prog::{Op, Prog};
use crate::rec::log;
use serde_json::json;
use shuttle::future::batch_semaphore::{BatchSemaphore, Fairness, TryAcquireError};
use shuttle::sync::atomic::{AtomicU8, Ordering};
use shuttle::sync::mpsc::{self, Receiver, Sender, SyncSender, TryRecvError, TrySendError};
use shuttle::sync::{Barrier, Condvar, Mutex, MutexGuard, Once, RwLock, RwLockReadGuard, RwLockWriteGuard};
use shuttle::thread::{self, JoinHandle, Thread};
use std::cell::UnsafeCell;
use std::sync::atomic::{AtomicBool, Ordering as StdOrdering};
use std::sync::Arc;

pub static LOG_CLOCK: AtomicBool = AtomicBool::new(false);

// ---- a fixed pool of statics (thread-locals, lazy statics, static Once cells)

/// Per-program behaviour of the thread-local destructors: for key k, `touch[k]` is the key its
/// destructor reads (-1: none) and `yields[k]` whether it yields while being dropped.
pub static TLS_TOUCH: [std::sync::atomic::AtomicI64; 3] =
    [std::sync::atomic::AtomicI64::new(-1), std::sync::atomic::AtomicI64::new(-1), std::sync::atomic::AtomicI64::new(-1)];
pub static TLS_YIELD: [AtomicBool; 3] = [AtomicBool::new(false), AtomicBool::new(false), AtomicBool::new(false)];

pub struct TlsVal {
    key: usize,
    val: std::cell::Cell<i64>,
}

fn tls_read(k: usize) -> i64 {
    let r = match k {
        0 => TL0.try_with(|c| c.val.get()),
        1 => TL1.try_with(|c| c.val.get()),
        _ => TL2.try_with(|c| c.val.get()),
    };
    r.unwrap_or(-7)
}

impl TlsVal {
    fn new(key: usize) -> Self {
        crate::rec::TLS_LIVE.fetch_add(1, StdOrdering::SeqCst);
        TlsVal { key, val: std::cell::Cell::new(100 + key as i64) }
    }
}

impl Drop for TlsVal {
    fn drop(&mut self) {
        crate::rec::TLS_LIVE.fetch_sub(1, StdOrdering::SeqCst);
        if std::thread::panicking() {
            return;
        }
        let touch = TLS_TOUCH[self.key].load(StdOrdering::Relaxed);
        let tr = if touch >= 0 { tls_read(touch as usize) } else { 0 };
        let t = shuttle::current::get_current_task().map(|t| usize::from(t) as i64).unwrap_or(-1);
        if t < 0 {
            // dropped while an abandoned execution is cleaned up: only counted (the order in which the
            // runtime drops the slots of an unfinished task is unspecified)
            return;
        }
        log(json!({"e":"dt","t":t,"key":self.key,"val":self.val.get(),"touch":touch,"tr":tr}));
        if TLS_YIELD[self.key].load(StdOrdering::Relaxed) && t >= 0 {
            thread::yield_now();
        }
    }
}

shuttle::thread_local! {
    static TL0: TlsVal = TlsVal::new(0);
    static TL1: TlsVal = TlsVal::new(1);
    static TL2: TlsVal = TlsVal::new(2);
}

pub struct LzVal {
    k: usize,
    a: AtomicU8,
}

impl Drop for LzVal {
    fn drop(&mut self) {
        if std::thread::panicking() {
            return;
        }
        log(json!({"e":"drop","what":"lazy","i":self.k}));
    }
}

shuttle::lazy_static! {
    static ref LZ0: LzVal = LzVal { k: 0, a: AtomicU8::new(0) };
    static ref LZ1: LzVal = LzVal { k: 1, a: AtomicU8::new(0) };
}

static SONCE0: Once = Once::new();
static SONCE1: Once = Once::new();
pub static LOG_SLEN: AtomicBool = AtomicBool::new(false);

/// Shuttle runs every task on one OS thread, cooperatively; plain interior mutability is enough
/// for the interpreter's own bookkeeping (and cannot introduce scheduling points of its own).
pub struct UCell<T>(UnsafeCell<T>);
unsafe impl<T> Sync for UCell<T> {}
unsafe impl<T> Send for UCell<T> {}
impl<T> UCell<T> {
    pub fn new(v: T) -> Self {
        UCell(UnsafeCell::new(v))
    }
    #[allow(clippy::mut_from_ref)]
    pub fn get(&self) -> &mut T {
        unsafe { &mut *self.0.get() }
    }
}

pub enum Tx {
    Unbounded(Sender<i64>),
    Bounded(SyncSender<i64>),
}

pub struct Chan {
    pub tx: Vec<UCell<Option<Tx>>>,
    pub rx: UCell<Option<Receiver<i64>>>,
    /// the owning iterator (`rx.into_iter()`), once the receiver has been turned into one
    pub iter: UCell<Option<shuttle::sync::mpsc::IntoIter<i64>>>,
}

pub struct World {
    pub prog: Arc<Prog>,
    pub mutexes: Vec<Mutex<i64>>,
    pub atomics: Vec<AtomicU8>,
    pub bools: Vec<Option<shuttle::sync::atomic::AtomicBool>>,
    pub cvs: Vec<Condvar>,
    pub rws: Vec<RwLock<i64>>,
    pub chans: Vec<Chan>,
    pub sems: Vec<BatchSemaphore>,
    pub barriers: Vec<Barrier>,
    pub onces: Vec<Once>,
    pub handles: Vec<UCell<Option<JoinHandle<i64>>>>,
    pub threads: Vec<UCell<Option<Thread>>>,
    // ---- async
    pub flags: Vec<shuttle::sync::atomic::AtomicBool>,
    pub fwakers: Vec<UCell<Option<std::task::Waker>>>,
    pub fhandles: Vec<UCell<Option<shuttle::future::JoinHandle<i64>>>>,
    pub aborts: Vec<UCell<Option<shuttle::future::AbortHandle>>>,
}

const MAX_TX: usize = 4;

impl World {
    /// Must be called from inside an execution (several constructors register resources).
    pub fn new(prog: Arc<Prog>) -> World {
        let n = prog.tasks.len();
        let chans = prog
            .chans
            .iter()
            .map(|&cap| {
                let (tx, rx) = if cap < 0 {
                    let (tx, rx) = mpsc::channel::<i64>();
                    (Tx::Unbounded(tx), rx)
                } else {
                    let (tx, rx) = mpsc::sync_channel::<i64>(cap as usize);
                    (Tx::Bounded(tx), rx)
                };
                let mut txs: Vec<UCell<Option<Tx>>> = vec![UCell::new(Some(tx))];
                for _ in 1..MAX_TX {
                    txs.push(UCell::new(None));
                }
                Chan { tx: txs, rx: UCell::new(Some(rx)), iter: UCell::new(None) }
            })
            .collect();
        World {
            mutexes: (0..prog.nmutex).map(|_| Mutex::new(0)).collect(),
            atomics: prog.atomics.iter().map(|&v| AtomicU8::new(v as u8)).collect(),
            bools: prog.atomics.iter().enumerate()
                .map(|(i, &v)| if prog.boolcells.contains(&i) { Some(shuttle::sync::atomic::AtomicBool::new(v != 0)) } else { None })
                .collect(),
            cvs: (0..prog.ncv).map(|_| Condvar::new()).collect(),
            rws: (0..prog.nrw).map(|_| RwLock::new(0)).collect(),
            chans,
            sems: prog
                .sems
                .iter()
                .map(|s| {
                    BatchSemaphore::new(
                        s.n,
                        if s.fair != 0 { Fairness::StrictlyFair } else { Fairness::Unfair },
                    )
                })
                .collect(),
            barriers: prog.barriers.iter().map(|&b| Barrier::new(b)).collect(),
            onces: (0..prog.nonce).map(|_| Once::new()).collect(),
            handles: (0..n).map(|_| UCell::new(None)).collect(),
            threads: (0..n).map(|_| UCell::new(None)).collect(),
            flags: (0..prog.nflags).map(|_| shuttle::sync::atomic::AtomicBool::new(false)).collect(),
            fwakers: (0..prog.nflags).map(|_| UCell::new(None)).collect(),
            fhandles: (0..n).map(|_| UCell::new(None)).collect(),
            aborts: (0..n).map(|_| UCell::new(None)).collect(),
            prog,
        }
    }
}

enum Guard<'a> {
    M(MutexGuard<'a, i64>),
    R(RwLockReadGuard<'a, i64>),
    W(RwLockWriteGuard<'a, i64>),
}

fn ord(v: i64) -> Ordering {
    match v {
        1 => Ordering::Relaxed,
        2 => Ordering::Acquire,
        3 => Ordering::Release,
        4 => Ordering::AcqRel,
        _ => Ordering::SeqCst,
    }
}

fn me() -> usize {
    usize::from(shuttle::current::me())
}

fn log_op(ix: usize, pc: usize, k: &str, r: i64) {
    if LOG_SLEN.load(StdOrdering::Relaxed) {
        let sl = shuttle_engine::runtime::execution::CurrentSchedule::len();
        log(json!({"e":"op","t":me(),"c":ix,"pc":pc,"k":k,"r":r,"sl":sl}));
    } else if LOG_CLOCK.load(StdOrdering::Relaxed) {
        let c = shuttle::current::clock();
        let clk: Vec<u32> = c.iter().copied().collect();
        log(json!({"e":"op","t":me(),"c":ix,"pc":pc,"k":k,"r":r,"clk":clk}));
    } else {
        log(json!({"e":"op","t":me(),"c":ix,"pc":pc,"k":k,"r":r}));
    }
}

/// A value owned by every task: captured by its closure / future when it is spawned and moved onto the task's
/// stack when it starts.  All of them must be gone once the execution has been torn down (C14).
#[derive(Clone, Debug)]
pub struct UserLabel(pub i64);

pub struct Token(u64);

impl Token {
    pub fn new() -> Self {
        crate::rec::TOK_LIVE.fetch_add(1, StdOrdering::SeqCst);
        if std::env::var("TOKDEBUG").is_ok() {
            eprintln!("TOK new epoch={}", crate::rec::TOK_EPOCH.load(StdOrdering::SeqCst));
        }
        Token(crate::rec::TOK_EPOCH.load(StdOrdering::SeqCst))
    }
}

impl Drop for Token {
    fn drop(&mut self) {
        if std::env::var("TOKDEBUG").is_ok() {
            eprintln!("TOK drop created={} now={} panicking={}", self.0, crate::rec::TOK_EPOCH.load(StdOrdering::SeqCst), std::thread::panicking());
        }
        // tokens of an earlier execution (leaked by a failing one and released later, if ever) do not count
        if self.0 == crate::rec::TOK_EPOCH.load(StdOrdering::SeqCst) {
            crate::rec::TOK_LIVE.fetch_sub(1, StdOrdering::SeqCst);
        }
    }
}

pub fn run_main(prog: Arc<Prog>) {
    let _tk = Token::new();
    for k in 0..3 {
        TLS_TOUCH[k].store(prog.tls_touch.get(k).copied().unwrap_or(-1), StdOrdering::Relaxed);
        TLS_YIELD[k].store(prog.tls_yield.get(k).copied().unwrap_or(0) != 0, StdOrdering::Relaxed);
    }
    let w = Arc::new(World::new(prog));
    *w.threads[0].get() = Some(thread::current());
    run_task(w, 0);
}

pub fn run_task(w: Arc<World>, ix: usize) -> i64 {
    let wr: &World = &w;
    let mut guards: Vec<Option<Guard>> = (0..4).map(|_| None).collect();
    let mut acc: i64 = 0;
    let code: &Vec<Op> = &wr.prog.tasks[ix];
    let mut i = 0;
    while i < code.len() {
        let op = &code[i];
        if op.k == "bo_begin" {
            // the ops up to the matching bo_end run as a future on this thread (shuttle::future::block_on)
            let mut j = i + 1;
            while j < code.len() && code[j].k != "bo_end" {
                j += 1;
            }
            log_op(ix, i + 1, "bo_begin", 0);
            let w2 = Arc::clone(&w);
            let r = shuttle::future::block_on(run_async(w2, ix, i + 1, j, false));
            log_op(ix, j + 1, "bo_end", r);
            acc = r;
            i = j + 1;
            continue;
        }
        if op.k == "scope_begin" {
            // everything up to the matching scope_end runs inside the closure given to thread::scope
            let mut depth = 1;
            let mut j = i + 1;
            while j < code.len() {
                if code[j].k == "scope_begin" {
                    depth += 1;
                } else if code[j].k == "scope_end" {
                    depth -= 1;
                    if depth == 0 {
                        break;
                    }
                }
                j += 1;
            }
            log_op(ix, i + 1, "scope_begin", 0);
            let guards_ref = &mut guards;
            let acc_ref = &mut acc;
            thread::scope(|sc| {
                let mut shandles: Vec<Option<thread::ScopedJoinHandle<'_, i64>>> = (0..wr.prog.tasks.len()).map(|_| None).collect();
                for (n, op2) in code.iter().enumerate().take(j).skip(i + 1) {
                    let r = if op2.k == "sspawn" {
                        let child = op2.v as usize;
                        let w2 = Arc::clone(&w);
                        let tk = Token::new();
                        let h = sc.spawn(move || {
                            let _tk = tk;
                            run_task(w2, child)
                        });
                        let tid: usize = h.thread().id().into();
                        *wr.threads[child].get() = Some(h.thread().clone());
                        shandles[child] = Some(h);
                        tid as i64
                    } else if op2.k == "join" && shandles[op2.v as usize].is_some() {
                        // joining a scoped thread from inside the scope body
                        shandles[op2.v as usize].take().unwrap().join().unwrap()
                    } else {
                        exec_op(&w, wr, ix, op2, guards_ref, *acc_ref)
                    };
                    log_op(ix, n + 1, &op2.k, r);
                    *acc_ref = r;
                }
            });
            log_op(ix, j + 1, "scope_end", 0);
            acc = 0;
            i = j + 1;
            continue;
        }
        let r = exec_op(&w, wr, ix, op, &mut guards, acc);
        log_op(ix, i + 1, &op.k, r);
        acc = r;
        i += 1;
    }
    log_op(ix, code.len() + 1, "ret", acc);
    drop(guards);
    acc
}

fn exec_op<'a>(warc: &Arc<World>, w: &'a World, _ix: usize, op: &Op, guards: &mut Vec<Option<Guard<'a>>>, acc: i64) -> i64 {
    let o = op.o as usize;
    let slot = op.w as usize;
    match op.k.as_str() {
        "spawn" => {
            let child = op.v as usize;
            let w2 = Arc::clone(warc);
            let tk = Token::new();
            let h = thread::spawn(move || {
                let _tk = tk;
                run_task(w2, child)
            });
            let tid: usize = h.thread().id().into();
            *w.threads[child].get() = Some(h.thread().clone());
            *w.handles[child].get() = Some(h);
            tid as i64
        }
        "join" => {
            let child = op.v as usize;
            let h = w.handles[child].get().take().expect("join: no handle");
            match h.join() {
                Ok(v) => v,
                Err(_) => -9,
            }
        }
        "yield" => {
            thread::yield_now();
            0
        }
        "spin" => {
            shuttle::hint::spin_loop();
            0
        }
        "sleep" => {
            thread::sleep(std::time::Duration::from_millis(1));
            0
        }
        "nop" => 0,
        // ---- thread-locals (per-thread, lazily initialised to 100 + key)
        "tls_get" => tls_read(o),
        "tls_set" => {
            let f = |c: &TlsVal| {
                let old = c.val.get();
                c.val.set(op.v);
                old
            };
            let r = match o {
                0 => TL0.try_with(f),
                1 => TL1.try_with(f),
                _ => TL2.try_with(f),
            };
            r.unwrap_or(-7)
        }
        // ---- lazy statics: first access initialises (per execution)
        "lz_fadd" => {
            let l: &LzVal = if o == 0 { &LZ0 } else { &LZ1 };
            l.a.fetch_add(op.v as u8, Ordering::SeqCst) as i64
        }
        "lz_load" => {
            let l: &LzVal = if o == 0 { &LZ0 } else { &LZ1 };
            l.a.load(Ordering::SeqCst) as i64
        }
        // ---- a `static` Once (process-global object, per-execution state)
        "sonce" => {
            let mut ran = 0;
            let c = if o == 0 { &SONCE0 } else { &SONCE1 };
            c.call_once(|| {
                ran = 1;
                if op.w >= 0 {
                    w.atomics[op.w as usize].store(op.v as u8, Ordering::SeqCst);
                }
            });
            ran
        }
        "sonce_done" => {
            let c = if o == 0 { &SONCE0 } else { &SONCE1 };
            if c.is_completed() {
                1
            } else {
                0
            }
        }
        // ---- identity
        "tid" => {
            let id: usize = thread::current().id().into();
            id as i64
        }
        "label_set" => {
            let me = shuttle::current::me();
            shuttle::current::set_label_for_task::<UserLabel>(me, UserLabel(op.v)).map(|l| l.0).unwrap_or(-1)
        }
        "label_get" => {
            let me = shuttle::current::me();
            shuttle::current::get_label_for_task::<UserLabel>(me).map(|l| l.0).unwrap_or(-1)
        }
        "name" => match thread::current().name() {
            None => -1,
            Some("main-thread") => -2,
            Some(n) => n.trim_start_matches('t').parse::<i64>().unwrap_or(-3),
        },
        "spawn_named" => {
            let child = op.v as usize;
            let w2 = Arc::clone(warc);
            let tk = Token::new();
            let h = thread::Builder::new().name(format!("t{child}")).spawn(move || { let _tk = tk; run_task(w2, child) }).unwrap();
            let tid: usize = h.thread().id().into();
            *w.threads[child].get() = Some(h.thread().clone());
            *w.handles[child].get() = Some(h);
            tid as i64
        }
        "reset_steps" => {
            shuttle::current::reset_step_count();
            0
        }
        "realsleep" => {
            std::thread::sleep(std::time::Duration::from_millis(op.v as u64));
            0
        }
        "acc" => acc,
        "me" => me() as i64,
        "park" => {
            thread::park();
            0
        }
        "unpark" => match w.threads[op.v as usize].get().as_ref() {
            // a target that has not been spawned yet: nothing to do (and no scheduling point)
            None => -1,
            Some(t) => {
                let t = t.clone();
                t.unpark();
                0
            }
        },
        "panic" => panic!("boom-{}", op.v),
        // fails only on the interleavings in which the previous operation of this task returned `v`
        "panic_if" => {
            if acc == op.v {
                panic!("boom-race");
            }
            0
        }
        // ---- async tasks
        "spawn_future" => {
            let child = op.v as usize;
            let w2 = Arc::clone(warc);
            let n = w.prog.tasks[child].len();
            let tk = Token::new();
            let h = shuttle::future::spawn_local(async move {
                let _tk = tk;
                run_async(w2, child, 0, n, true).await
            });
            *w.aborts[child].get() = Some(h.abort_handle());
            *w.fhandles[child].get() = Some(h);
            0
        }
        "set_flag" => {
            w.flags[o].store(true, Ordering::SeqCst);
            if let Some(wk) = w.fwakers[o].get().take() {
                wk.wake();
            }
            0
        }
        "wake_only" => {
            // reading the waker slot is made a visible operation (an atomic load precedes it)
            let _ = w.flags[o].load(Ordering::SeqCst);
            if let Some(wk) = w.fwakers[o].get().as_ref() {
                wk.wake_by_ref();
                1
            } else {
                0
            }
        }
        "abort" => {
            let a = w.aborts[op.v as usize].get().as_ref().expect("abort: unknown task").clone();
            a.abort();
            0
        }
        "detach" => {
            let h = w.fhandles[op.v as usize].get().take().expect("detach: no handle");
            drop(h);
            0
        }
        // poll the JoinHandle once with a no-op waker (a `now_or_never` probe): -5 = still pending
        "try_join" => {
            use std::future::Future;
            // polling a JoinHandle is not a scheduling point of its own; make the probe a visible operation
            if !w.atomics.is_empty() {
                let _ = w.atomics[0].load(Ordering::SeqCst);
            }
            let slot = w.fhandles[op.v as usize].get();
            let mut h = slot.take().expect("try_join: no handle");
            let waker = noop_waker();
            let mut cx = std::task::Context::from_waker(&waker);
            match std::pin::Pin::new(&mut h).poll(&mut cx) {
                std::task::Poll::Ready(Ok(v)) => v,
                std::task::Poll::Ready(Err(_)) => -8,
                std::task::Poll::Pending => {
                    *slot = Some(h);
                    -5
                }
            }
        }
        "is_finished" => {
            if w.aborts[op.v as usize].get().as_ref().expect("is_finished: unknown task").is_finished() {
                1
            } else {
                0
            }
        }
        "rand" => {
            use shuttle::rand::RngCore;
            (shuttle::rand::thread_rng().next_u64() % 4) as i64
        }
        // ---- Mutex
        "lock" => match w.mutexes[o].lock() {
            Ok(g) => {
                guards[slot] = Some(Guard::M(g));
                0
            }
            Err(p) => {
                guards[slot] = Some(Guard::M(p.into_inner()));
                1
            }
        },
        "try_lock" => match w.mutexes[o].try_lock() {
            Ok(g) => {
                guards[slot] = Some(Guard::M(g));
                0
            }
            Err(std::sync::TryLockError::WouldBlock) => 1,
            Err(std::sync::TryLockError::Poisoned(p)) => {
                guards[slot] = Some(Guard::M(p.into_inner()));
                2
            }
        },
        "unlock" => {
            let g = guards[slot].take().expect("unlock: empty slot");
            drop(g);
            0
        }
        // the holder panics while it holds the guard (the panic is caught inside the task): the lock is poisoned
        "punlock" => {
            let g = guards[slot].take().expect("punlock: empty slot");
            let _ = std::panic::catch_unwind(std::panic::AssertUnwindSafe(move || {
                let _g = g;
                panic!("poison-by-panic");
            }));
            0
        }
        "unlock_if" => match guards[slot].take() {
            Some(g) => {
                drop(g);
                1
            }
            None => 0,
        },
        // non-atomic read-modify-write of the protected cell
        "ginc" => match guards[slot].as_mut().expect("ginc: empty slot") {
            Guard::M(g) => {
                **g += 1;
                **g
            }
            Guard::W(g) => {
                **g += 1;
                **g
            }
            Guard::R(g) => **g,
        },
        "gget" => match guards[slot].as_ref().expect("gget: empty slot") {
            Guard::M(g) => **g,
            Guard::W(g) => **g,
            Guard::R(g) => **g,
        },
        // ---- RwLock
        "read" => match w.rws[o].read() {
            Ok(g) => {
                guards[slot] = Some(Guard::R(g));
                0
            }
            Err(p) => {
                guards[slot] = Some(Guard::R(p.into_inner()));
                1
            }
        },
        "write" => match w.rws[o].write() {
            Ok(g) => {
                guards[slot] = Some(Guard::W(g));
                0
            }
            Err(p) => {
                guards[slot] = Some(Guard::W(p.into_inner()));
                1
            }
        },
        "try_read" => match w.rws[o].try_read() {
            Ok(g) => {
                guards[slot] = Some(Guard::R(g));
                0
            }
            Err(std::sync::TryLockError::WouldBlock) => 1,
            Err(std::sync::TryLockError::Poisoned(p)) => {
                guards[slot] = Some(Guard::R(p.into_inner()));
                2
            }
        },
        "try_write" => match w.rws[o].try_write() {
            Ok(g) => {
                guards[slot] = Some(Guard::W(g));
                0
            }
            Err(std::sync::TryLockError::WouldBlock) => 1,
            Err(std::sync::TryLockError::Poisoned(p)) => {
                guards[slot] = Some(Guard::W(p.into_inner()));
                2
            }
        },
        // ---- Condvar
        "cv_wait" => {
            let g = guards[slot].take().expect("cv_wait: empty slot");
            match g {
                Guard::M(g) => match w.cvs[o].wait(g) {
                    Ok(g) => {
                        guards[slot] = Some(Guard::M(g));
                        0
                    }
                    Err(p) => {
                        guards[slot] = Some(Guard::M(p.into_inner()));
                        1
                    }
                },
                _ => panic!("cv_wait: not a mutex guard"),
            }
        }
        "notify_one" => {
            w.cvs[o].notify_one();
            0
        }
        "notify_all" => {
            w.cvs[o].notify_all();
            0
        }
        // ---- atomics (8 bit, wrap-around)
        "load" => w.atomics[o].load(ord(op.w)) as i64,
        "store" => {
            w.atomics[o].store(op.v as u8, ord(op.w));
            0
        }
        "swap" => w.atomics[o].swap(op.v as u8, ord(op.w)) as i64,
        "fadd" => w.atomics[o].fetch_add(op.v as u8, ord(op.w)) as i64,
        "fsub" => w.atomics[o].fetch_sub(op.v as u8, ord(op.w)) as i64,
        "fand" => w.atomics[o].fetch_and(op.v as u8, ord(op.w)) as i64,
        "for" => w.atomics[o].fetch_or(op.v as u8, ord(op.w)) as i64,
        "fxor" => w.atomics[o].fetch_xor(op.v as u8, ord(op.w)) as i64,
        "fnand" => w.atomics[o].fetch_nand(op.v as u8, ord(op.w)) as i64,
        "fmax" => w.atomics[o].fetch_max(op.v as u8, ord(op.w)) as i64,
        "b_load" => w.bools[o].as_ref().expect("not a bool cell").load(ord(op.w)) as i64,
        "b_store" => {
            w.bools[o].as_ref().expect("not a bool cell").store(op.v % 2 == 1, ord(op.w));
            0
        }
        "b_swap" => w.bools[o].as_ref().expect("not a bool cell").swap(op.v % 2 == 1, ord(op.w)) as i64,
        "b_and" => w.bools[o].as_ref().expect("not a bool cell").fetch_and(op.v % 2 == 1, ord(op.w)) as i64,
        "b_or" => w.bools[o].as_ref().expect("not a bool cell").fetch_or(op.v % 2 == 1, ord(op.w)) as i64,
        "b_xor" => w.bools[o].as_ref().expect("not a bool cell").fetch_xor(op.v % 2 == 1, ord(op.w)) as i64,
        "b_nand" => w.bools[o].as_ref().expect("not a bool cell").fetch_nand(op.v % 2 == 1, ord(op.w)) as i64,
        "fmin" => w.atomics[o].fetch_min(op.v as u8, ord(op.w)) as i64,
        // cas: v = expected, w = new
        "cas" => match w.atomics[o].compare_exchange(op.v as u8, op.w as u8, Ordering::SeqCst, Ordering::SeqCst) {
            Ok(old) => old as i64,
            Err(cur) => 256 + cur as i64,
        },
        // ---- std mpsc: o = channel, v = value, w = sender handle slot
        "send" => {
            let h = w.chans[o].tx[slot].get().as_ref().expect("send: dropped handle");
            let res = match h {
                Tx::Unbounded(s) => s.send(op.v).is_ok(),
                Tx::Bounded(s) => s.send(op.v).is_ok(),
            };
            if res {
                0
            } else {
                -1
            }
        }
        "try_send" => {
            let h = w.chans[o].tx[slot].get().as_ref().expect("try_send: dropped handle");
            match h {
                Tx::Unbounded(s) => {
                    if s.send(op.v).is_ok() {
                        0
                    } else {
                        -1
                    }
                }
                Tx::Bounded(s) => match s.try_send(op.v) {
                    Ok(()) => 0,
                    Err(TrySendError::Full(_)) => -3,
                    Err(TrySendError::Disconnected(_)) => -1,
                },
            }
        }
        // w = 1: through the owning iterator (`for x in rx`): the next item, or -2 once the channel is disconnected
        "recv" if op.w == 1 => {
            if w.chans[o].iter.get().is_none() {
                let rx = w.chans[o].rx.get().take().expect("recv(iter): dropped receiver");
                *w.chans[o].iter.get() = Some(rx.into_iter());
            }
            match w.chans[o].iter.get().as_mut().unwrap().next() {
                Some(v) => v,
                None => -2,
            }
        }
        "recv" => {
            let rx = w.chans[o].rx.get().as_ref().expect("recv: dropped receiver");
            match rx.recv() {
                Ok(v) => v,
                Err(_) => -2,
            }
        }
        "try_recv" => {
            let rx = w.chans[o].rx.get().as_ref().expect("try_recv: dropped receiver");
            match rx.try_recv() {
                Ok(v) => v,
                Err(TryRecvError::Empty) => -1,
                Err(TryRecvError::Disconnected) => -2,
            }
        }
        // clone_tx: v = source handle slot, w = destination slot
        "clone_tx" => {
            let src = w.chans[o].tx[op.v as usize].get().as_ref().expect("clone_tx: dropped handle");
            let c = match src {
                Tx::Unbounded(s) => Tx::Unbounded(s.clone()),
                Tx::Bounded(s) => Tx::Bounded(s.clone()),
            };
            *w.chans[o].tx[slot].get() = Some(c);
            0
        }
        "drop_tx" => {
            let h = w.chans[o].tx[slot].get().take().expect("drop_tx: dropped handle");
            drop(h);
            0
        }
        "drop_rx" => {
            let h = w.chans[o].rx.get().take().expect("drop_rx: dropped receiver");
            drop(h);
            0
        }
        // ---- Barrier / Once
        "barrier_wait" => {
            if w.barriers[o].wait().is_leader() {
                1
            } else {
                0
            }
        }
        // call_once: the initializer stores v into atomic w (one visible op inside the body)
        "call_once" => {
            let mut ran = 0;
            w.onces[o].call_once(|| {
                ran = 1;
                if op.w >= 0 {
                    w.atomics[op.w as usize].store(op.v as u8, Ordering::SeqCst);
                }
            });
            ran
        }
        "is_completed" => {
            if w.onces[o].is_completed() {
                1
            } else {
                0
            }
        }
        // ---- BatchSemaphore
        "acquire" => match w.sems[o].acquire_blocking(op.v as usize) {
            Ok(()) => 0,
            Err(_) => -1,
        },
        "try_acquire" => match w.sems[o].try_acquire(op.v as usize) {
            Ok(()) => 0,
            Err(TryAcquireError::Closed) => -1,
            Err(TryAcquireError::NoPermits) => -3,
        },
        "release" => {
            w.sems[o].release(op.v as usize);
            0
        }
        "close" => {
            w.sems[o].close();
            0
        }
        "avail" => w.sems[o].available_permits() as i64,
        "is_closed" => {
            if w.sems[o].is_closed() {
                1
            } else {
                0
            }
        }
        other => panic!("unknown op kind {other}"),
    }
}


// ------------------------------------------------------------------------------------------
// async interpreter (future tasks, and block_on sections of threads)

fn noop_waker() -> std::task::Waker {
    use std::task::{RawWaker, RawWakerVTable, Waker};
    fn clone(_: *const ()) -> RawWaker {
        RawWaker::new(std::ptr::null(), &VT)
    }
    fn noop(_: *const ()) {}
    static VT: RawWakerVTable = RawWakerVTable::new(clone, noop, noop, noop);
    unsafe { Waker::from_raw(RawWaker::new(std::ptr::null(), &VT)) }
}

struct FlagFut {
    w: Arc<World>,
    f: usize,
}

impl std::future::Future for FlagFut {
    type Output = ();
    fn poll(self: std::pin::Pin<&mut Self>, cx: &mut std::task::Context<'_>) -> std::task::Poll<()> {
        // the load is a Shuttle atomic: a scheduling point inside every poll
        if self.w.flags[self.f].load(Ordering::SeqCst) {
            std::task::Poll::Ready(())
        } else {
            *self.w.fwakers[self.f].get() = Some(cx.waker().clone());
            std::task::Poll::Pending
        }
    }
}

/// `poll_fn(|cx| { slot = cx.waker().clone(); Ready })`: hands the task's waker out without waiting.
struct RegFut {
    w: Arc<World>,
    f: usize,
}

impl std::future::Future for RegFut {
    type Output = ();
    fn poll(self: std::pin::Pin<&mut Self>, cx: &mut std::task::Context<'_>) -> std::task::Poll<()> {
        // the waker slot is shared with set_flag / wake_only: make the registration a visible operation
        let _ = self.w.flags[self.f].load(Ordering::SeqCst);
        *self.w.fwakers[self.f].get() = Some(cx.waker().clone());
        std::task::Poll::Ready(())
    }
}

/// Pending exactly once, registering nothing: it is polled again only if some waker handed out earlier is invoked.
struct SuspendFut {
    done: bool,
}

impl std::future::Future for SuspendFut {
    type Output = ();
    fn poll(mut self: std::pin::Pin<&mut Self>, _cx: &mut std::task::Context<'_>) -> std::task::Poll<()> {
        if self.done {
            std::task::Poll::Ready(())
        } else {
            self.done = true;
            std::task::Poll::Pending
        }
    }
}

/// Logs if the future is dropped before it ran to completion (abort, or end of an abandoned execution).
struct DropLog {
    ix: usize,
    done: bool,
    is_task: bool,
}

impl Drop for DropLog {
    fn drop(&mut self) {
        if !self.done && self.is_task && !std::thread::panicking() {
            let t = shuttle::current::get_current_task().map(|t| usize::from(t) as i64).unwrap_or(-1);
            if t >= 0 {
                log(json!({"e":"fdrop","t":t,"c":self.ix}));
            }
        }
    }
}

pub async fn run_async(w: Arc<World>, ix: usize, from: usize, to: usize, is_task: bool) -> i64 {
    let mut dl = DropLog { ix, done: false, is_task };
    let wr: &World = &w;
    let mut guards: Vec<Option<Guard>> = (0..4).map(|_| None).collect();
    let mut acc: i64 = 0;
    let code: &Vec<Op> = &wr.prog.tasks[ix];
    for i in from..to {
        let op = &code[i];
        let o = op.o as usize;
        let r: i64 = match op.k.as_str() {
            "ayield" => {
                shuttle::future::yield_now().await;
                0
            }
            "await_flag" => {
                FlagFut { w: Arc::clone(&w), f: o }.await;
                0
            }
            "reg_flag" => {
                RegFut { w: Arc::clone(&w), f: o }.await;
                0
            }
            "suspend" => {
                SuspendFut { done: false }.await;
                0
            }
            "await_join" => {
                match wr.fhandles[op.v as usize].get().take() {
                    // the handle was consumed by an earlier successful probe
                    None => -6,
                    Some(h) => match h.await {
                        Ok(v) => v,
                        Err(_) => -8,
                    },
                }
            }
            "acquire" => match wr.sems[o].acquire(op.v as usize).await {
                Ok(()) => 0,
                Err(_) => -1,
            },
            _ => exec_op(&w, wr, ix, op, &mut guards, acc),
        };
        log_op(ix, i + 1, &op.k, r);
        acc = r;
    }
    if is_task {
        log_op(ix, code.len() + 1, "ret", acc);
    }
    dl.done = true;
    drop(guards);
    acc
}
