//! C12: histories of configured runs in one process; everything Shuttle writes to stderr is left
//! in place (the caller captures it), with markers between the runs.
use crate::interp;
use crate::prog::Prog;
use serde_json::{json, Value};
use shuttle::{Config, FailurePersistence, MaxSteps, Runner};
use shuttle_schedulers::{DfsScheduler, RandomScheduler, ReplayScheduler};
use std::panic;
use std::sync::Arc;

fn cfg_for(p: &Prog, persist: &str, dir: Option<&str>) -> Config {
    let mut c = Config::new();
    c.stack_size = 0x8000;
    c.silence_warnings = true;
    c.failure_persistence = match persist {
        "none" => FailurePersistence::None,
        "print" => FailurePersistence::Print,
        _ => FailurePersistence::File(dir.map(std::path::PathBuf::from)),
    };
    c.max_steps = if p.maxsteps > 0 {
        MaxSteps::FailAfter(p.maxsteps as usize)
    } else if p.maxsteps < 0 {
        MaxSteps::ContinueAfter((-p.maxsteps) as usize)
    } else {
        MaxSteps::FailAfter(3000)
    };
    c
}

fn one_run(k: usize, r: &Value) -> Value {
    let p: Prog = serde_json::from_value(r["prog"].clone()).unwrap();
    let p = crate::normalize(p);
    let persist = r["persist"].as_str().unwrap().to_string();
    let dir = r["dir"].as_str().map(|s| s.to_string());
    let cfg = cfg_for(&p, &persist, dir.as_deref());
    let prog = Arc::new(p);
    eprintln!("@@RUN {k} BEGIN");
    let res = if let Some(members) = r["portfolio"].as_array() {
        // "finder" explores every schedule (and so finds the failing one), "blind" only the first one (which passes)
        let mut pf = shuttle::PortfolioRunner::new(r["stop_on_first"].as_bool().unwrap_or(true), cfg);
        for m in members {
            if m.as_str() == Some("finder") {
                pf.add(DfsScheduler::new(None, false));
            } else {
                pf.add(DfsScheduler::new(Some(1), false));
            }
        }
        let pr = Arc::clone(&prog);
        panic::catch_unwind(panic::AssertUnwindSafe(|| {
            pf.run(move || interp::run_main(Arc::clone(&pr)));
            0usize
        }))
    } else if let Some(s) = r["replay"].as_str() {
        let sched = ReplayScheduler::new_from_encoded(s);
        let runner = Runner::new(sched, cfg);
        let pr = Arc::clone(&prog);
        panic::catch_unwind(panic::AssertUnwindSafe(|| runner.run(move || interp::run_main(Arc::clone(&pr)))))
    } else {
        let seed = r["seed"].as_u64().unwrap_or(1);
        let iters = r["iters"].as_u64().unwrap_or(20) as usize;
        let runner = Runner::new(RandomScheduler::new_from_seed(seed, iters), cfg);
        let pr = Arc::clone(&prog);
        panic::catch_unwind(panic::AssertUnwindSafe(|| runner.run(move || interp::run_main(Arc::clone(&pr)))))
    };
    eprintln!("@@RUN {k} END");
    let _ = crate::rec::take_plain();
    match res {
        Ok(n) => json!({"run": k, "result": "ok", "execs": n}),
        Err(e) => json!({"run": k, "result": "failed", "msg": crate::payload_msg(&e)}),
    }
}

pub fn run(spec_path: &str) {
    let spec: Value = serde_json::from_str(&std::fs::read_to_string(spec_path).unwrap()).unwrap();
    // no hook of our own: Shuttle's hook must chain to the default one exactly as in a user's test binary
    let _ = panic::take_hook();
    panic::set_hook(Box::new(|_| {}));
    for (k, r) in spec["runs"].as_array().unwrap().iter().enumerate() {
        let out = if r["newthread"].as_bool().unwrap_or(false) {
            let r2 = r.clone();
            std::thread::spawn(move || one_run(k, &r2)).join().unwrap()
        } else {
            one_run(k, r)
        };
        println!("{out}");
    }
}
