//! Program language shared with the TLA+ specification (see DESIGN.md section 3.1).
use serde::{Deserialize, Serialize};

#[derive(Clone, Debug, Serialize, Deserialize)]
pub struct Op {
    pub k: String,
    #[serde(default)]
    pub o: i64,
    #[serde(default)]
    pub v: i64,
    #[serde(default)]
    pub w: i64,
}

#[derive(Clone, Debug, Serialize, Deserialize)]
pub struct SemDecl {
    pub n: usize,
    pub fair: i64,
}

#[derive(Clone, Debug, Serialize, Deserialize)]
pub struct Prog {
    pub id: i64,
    #[serde(default)]
    pub fam: String,
    #[serde(default)]
    pub nmutex: usize,
    #[serde(default)]
    pub atomics: Vec<i64>,
    /// indices into `atomics` that are AtomicBool cells (operated on with the b_* operations only)
    #[serde(default)]
    pub boolcells: Vec<usize>,
    #[serde(default)]
    pub ncv: usize,
    #[serde(default)]
    pub nrw: usize,
    /// capacity per channel, -1 = unbounded
    #[serde(default)]
    pub chans: Vec<i64>,
    #[serde(default)]
    pub sems: Vec<SemDecl>,
    #[serde(default)]
    pub barriers: Vec<usize>,
    #[serde(default)]
    pub nonce: usize,
    #[serde(default)]
    pub nflags: usize,
    /// kind per task: "thread" | "future"
    #[serde(default)]
    pub kinds: Vec<String>,
    pub tasks: Vec<Vec<Op>>,
    /// thread-local destructor behaviour per key: key read by the destructor (-1 none), yields?
    #[serde(default)]
    pub tls_touch: Vec<i64>,
    #[serde(default)]
    pub tls_yield: Vec<i64>,
    /// max_steps: 0 = none, n>0 = FailAfter(n), n<0 = ContinueAfter(-n)
    #[serde(default)]
    pub maxsteps: i64,
}
