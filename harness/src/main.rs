mod interp;
mod prog;
mod dfs;
mod failhist;
mod pct;
mod randcheck;
mod rec;
mod sample;
mod serial;

use prog::Prog;
use rec::{Recorder, Walker};
use serde_json::{json, Value};
use shuttle::{Config, FailurePersistence, MaxSteps, Runner};
use std::collections::BTreeSet;
use std::io::{BufRead, BufReader, BufWriter, Write};
use std::panic;
use std::sync::Arc;

pub static IN_EXEC: std::sync::atomic::AtomicBool = std::sync::atomic::AtomicBool::new(false);

fn read_progs(path: &str) -> Vec<Prog> {
    let f = std::fs::File::open(path).unwrap_or_else(|e| panic!("cannot open {path}: {e}"));
    BufReader::new(f)
        .lines()
        .map(|l| l.unwrap())
        .filter(|l| !l.trim().is_empty())
        .map(|l| serde_json::from_str::<Prog>(&l).unwrap_or_else(|e| panic!("bad program {l}: {e}")))
        .map(normalize)
        .collect()
}

pub fn normalize(mut p: Prog) -> Prog {
    while p.tls_touch.len() < 3 {
        p.tls_touch.push(-1);
    }
    while p.tls_yield.len() < 3 {
        p.tls_yield.push(0);
    }
    p
}

pub fn config_for(p: &Prog) -> Config {
    let mut c = Config::new();
    c.stack_size = 0x8000;
    c.failure_persistence = FailurePersistence::None;
    c.max_steps = if p.maxsteps > 0 {
        MaxSteps::FailAfter(p.maxsteps as usize)
    } else if p.maxsteps < 0 {
        MaxSteps::ContinueAfter((-p.maxsteps) as usize)
    } else {
        MaxSteps::FailAfter(3000)
    };
    c.silence_warnings = true;
    c
}

pub fn payload_msg(e: &Box<dyn std::any::Any + Send>) -> String {
    if let Some(s) = e.downcast_ref::<String>() {
        s.clone()
    } else if let Some(s) = e.downcast_ref::<&str>() {
        s.to_string()
    } else {
        "<non-string payload>".to_string()
    }
}

/// Parse "deadlock! blocked tasks: [name (task N, detached, pending future), ...]"
fn parse_deadlock(msg: &str) -> Vec<i64> {
    let mut out = vec![];
    let mut rest = msg;
    while let Some(p) = rest.find("(task ") {
        let tail = &rest[p + 6..];
        // the id may be printed as `TaskId(3)` or `main-thread(3)`: take the number before the first ')'
        let end = tail.find(')').unwrap_or(tail.len());
        let inside = &tail[..end];
        let digits: String = inside.chars().rev().take_while(|c| c.is_ascii_digit()).collect::<String>().chars().rev().collect();
        if let Ok(n) = digits.parse::<i64>() {
            out.push(n);
        }
        rest = &tail[end..];
    }
    out
}

pub fn end_event_for_panic(msg: &str) -> Value {
    if msg.starts_with("deadlock! blocked tasks") {
        if std::env::var("VDEBUG").is_ok() {
            eprintln!("DEADLOCK-MSG: {msg}");
        }
        json!({"e":"end","v":"deadlock","bl":parse_deadlock(msg)})
    } else if msg.starts_with("exceeded max_steps bound") {
        json!({"e":"end","v":"maxsteps"})
    } else {
        let pk = if msg.starts_with("boom-") {
            "boom"
        } else if msg.contains("tried to acquire a Mutex it already holds") {
            "reentrant-mutex"
        } else if msg.contains("tried to acquire a RwLock it already holds") {
            "reentrant-rwlock"
        } else {
            "other"
        };
        json!({"e":"end","v":"panic","pk":pk,"msg":msg})
    }
}

struct Trie {
    evs: Vec<String>,
    kids: Vec<Vec<usize>>,
    leaves: u64,
}

impl Trie {
    fn new() -> Self {
        Trie { evs: vec!["{\"e\":\"root\"}".to_string()], kids: vec![vec![]], leaves: 0 }
    }
    fn add(&mut self, evs: &[String]) {
        let mut n = 0usize;
        let mut fresh = false;
        for e in evs {
            let mut found = None;
            for &k in &self.kids[n] {
                if &self.evs[k] == e {
                    found = Some(k);
                    break;
                }
            }
            n = match found {
                Some(k) => k,
                None => {
                    let id = self.evs.len();
                    self.evs.push(e.clone());
                    self.kids.push(vec![]);
                    self.kids[n].push(id);
                    fresh = true;
                    id
                }
            };
        }
        if fresh {
            self.leaves += 1;
        }
    }
}

/// Outcome projection of one execution; `None` if the scheduler chose a merely parked task
/// somewhere (a spurious wake-up: validated by the trace check, not part of the outcome sets).
fn outcome_of(evs: &[String], ntasks: usize) -> Option<String> {
    let mut obs: Vec<Vec<i64>> = vec![vec![]; ntasks];
    let mut started = vec![false; ntasks];
    let mut returned = vec![false; ntasks];
    started[0] = true;
    let mut verdict = "ok".to_string();
    for e in evs {
        let v: Value = serde_json::from_str(e).unwrap();
        match v["e"].as_str().unwrap() {
            "op" => {
                let c = v["c"].as_u64().unwrap() as usize;
                let k = v["k"].as_str().unwrap();
                let r = v["r"].as_i64().unwrap();
                if k == "ret" {
                    returned[c] = true;
                } else {
                    obs[c].push(r);
                    if k == "spawn" {
                        // the child's code index is not in the event; recover it below
                    }
                }
            }
            "dec" => {
                let ch = v["ch"].as_i64().unwrap();
                if v["sp"].as_array().unwrap().iter().any(|x| x.as_i64() == Some(ch)) {
                    return None;
                }
            }
            "end" => {
                verdict = v["v"].as_str().unwrap().to_string();
            }
            _ => {}
        }
    }
    let _ = started;
    let unf: Vec<usize> = (0..ntasks).filter(|&c| !returned[c]).collect();
    Some(json!({"obs":obs,"v":verdict,"unf":unf}).to_string())
}

/// Enumerate the whole schedule tree of one program with the walker; returns (trie, meta).
fn enumerate(p: &Prog, cap: u64, pbound: Option<u32>) -> (Trie, Value) {
    let prog = Arc::new(p.clone());
    let walker = Walker::new(cap);
    walker.st.lock().unwrap().pbound = pbound;
    let mut trie = Trie::new();
    let mut outcomes: BTreeSet<String> = BTreeSet::new();
    let mut execs: u64 = 0;
    let mut fails: u64 = 0;
    rec::reset_log();
    loop {
        if walker.st.lock().unwrap().done {
            break;
        }
        let sched = Recorder::new(walker.clone(), p.id);
        let runner = Runner::new(sched, config_for(p));
        let pr = Arc::clone(&prog);
        IN_EXEC.store(true, std::sync::atomic::Ordering::Relaxed);
        let res = panic::catch_unwind(panic::AssertUnwindSafe(|| {
            runner.run(move || interp::run_main(Arc::clone(&pr)));
        }));
        IN_EXEC.store(false, std::sync::atomic::Ordering::Relaxed);
        match res {
            Ok(()) => {
                rec::finish_exec_quiet();
            }
            Err(e) => {
                fails += 1;
                let msg = payload_msg(&e);
                rec::finish_exec(end_event_for_panic(&msg));
            }
        }
        for ex in rec::take_done() {
            execs += 1;
            if let Some(o) = outcome_of(&ex, p.tasks.len()) {
                outcomes.insert(o);
            }
            trie.add(&ex);
        }
    }
    let st = walker.st.lock().unwrap();
    let outs: Vec<Value> = outcomes.iter().map(|s| serde_json::from_str(s).unwrap()).collect();
    let meta = json!({
        "prog": p.id, "execs": execs, "fails": fails, "capped": st.capped, "pbound": pbound,
        "nondet": st.nondet, "nodes": trie.evs.len(), "leaves": trie.leaves,
        "outcomes": outs,
    });
    (trie, meta)
}

fn write_trie(trie: &Trie, path: &str) {
    let f = std::fs::File::create(path).unwrap();
    let mut w = BufWriter::new(f);
    for i in 0..trie.evs.len() {
        writeln!(w, "{{\"kids\":{:?},\"ev\":{}}}", trie.kids[i], trie.evs[i]).unwrap();
    }
}

fn arg<'a>(args: &'a [String], name: &str) -> Option<&'a str> {
    args.iter().position(|a| a == name).and_then(|i| args.get(i + 1)).map(|s| s.as_str())
}

fn cmd_one(args: &[String]) {
    let progs = read_progs(arg(args, "--progs").expect("--progs"));
    let idx: usize = arg(args, "--idx").expect("--idx").parse().unwrap();
    let out = arg(args, "--out").expect("--out");
    let cap: u64 = arg(args, "--cap").unwrap_or("50000").parse().unwrap();
    if args.iter().any(|a| a == "--clock") {
        interp::LOG_CLOCK.store(true, std::sync::atomic::Ordering::Relaxed);
    }
    let p = &progs[idx];
    if args.iter().any(|a| a == "--slen") {
        interp::LOG_SLEN.store(true, std::sync::atomic::Ordering::Relaxed);
    }
    if arg(args, "--mode") == Some("pct") {
        let iters: usize = arg(args, "--iters").unwrap_or("50").parse().unwrap();
        let seed: u64 = arg(args, "--seed").unwrap_or("1").parse().unwrap();
        if let Some(n) = arg(args, "--positions") {
            let n: usize = n.parse().unwrap();
            let mut m = pct::pct_positions(p, 3, n, seed.wrapping_mul(97).wrapping_add(p.id as u64));
            write_trie(&Trie::new(), &format!("{out}/p{idx}.trie"));
            m["capped"] = json!(false);
            m["nondet"] = Value::Null;
            m["outcomes"] = json!([]);
            m["posrun"] = json!(true);
            std::fs::write(format!("{out}/p{idx}.meta"), m.to_string()).unwrap();
            return;
        }
        if let Some(b) = arg(args, "--bugs") {
            // bug specs: {program id: {"bug":[[code,pc,r],...],"depth":d}}
            let all: Value = serde_json::from_str(&std::fs::read_to_string(b).unwrap()).unwrap();
            if let Some(spec) = all.get(p.id.to_string()) {
                let bug: Vec<(usize, usize, i64)> = spec["bug"].as_array().unwrap().iter()
                    .map(|x| (x[0].as_u64().unwrap() as usize, x[1].as_u64().unwrap() as usize, x[2].as_i64().unwrap())).collect();
                let depth = spec["depth"].as_u64().unwrap() as usize;
                let n = spec["iters"].as_u64().unwrap() as usize;
                let r = pct::pct_bug(p, &bug, depth, n, seed.wrapping_mul(2654435761).wrapping_add(p.id as u64));
                write_trie(&Trie::new(), &format!("{out}/p{idx}.trie"));
                let mut m = r;
                m["capped"] = json!(false);
                m["nondet"] = Value::Null;
                m["outcomes"] = json!([]);
                m["bugrun"] = json!(true);
                std::fs::write(format!("{out}/p{idx}.meta"), m.to_string()).unwrap();
                return;
            }
        }
        let (meta, log) = pct::pct_program(p, iters, seed.wrapping_mul(15485863).wrapping_add(p.id as u64));
        let f = std::fs::File::create(format!("{out}/p{idx}.pctlog")).unwrap();
        let mut w = BufWriter::new(f);
        for l in log {
            writeln!(w, "{l}").unwrap();
        }
        write_trie(&Trie::new(), &format!("{out}/p{idx}.trie"));
        std::fs::write(format!("{out}/p{idx}.meta"), meta.to_string()).unwrap();
        return;
    }
    if arg(args, "--mode") == Some("rand") {
        let iters: usize = arg(args, "--iters").unwrap_or("50").parse().unwrap();
        let seed: u64 = arg(args, "--seed").unwrap_or("1").parse().unwrap();
        let (leaves, capped) = dfs::walk_leaves(p, 400);
        let meta = randcheck::rand_program(p, iters, seed.wrapping_mul(104729).wrapping_add(p.id as u64), if capped { None } else { Some(leaves) });
        write_trie(&Trie::new(), &format!("{out}/p{idx}.trie"));
        std::fs::write(format!("{out}/p{idx}.meta"), meta.to_string()).unwrap();
        return;
    }
    if arg(args, "--mode") == Some("dfs") {
        let (meta, log) = dfs::dfs_program(p, cap);
        let f = std::fs::File::create(format!("{out}/p{idx}.dfslog")).unwrap();
        let mut w = BufWriter::new(f);
        for l in log {
            writeln!(w, "{l}").unwrap();
        }
        // an empty trie keeps the merge step uniform
        write_trie(&Trie::new(), &format!("{out}/p{idx}.trie"));
        std::fs::write(format!("{out}/p{idx}.meta"), meta.to_string()).unwrap();
        return;
    }
    if arg(args, "--mode") == Some("sample") {
        let iters: usize = arg(args, "--iters").unwrap_or("50").parse().unwrap();
        let seed: u64 = arg(args, "--seed").unwrap_or("1").parse().unwrap();
        let (execs, meta) = sample::sample_program(p, iters, seed.wrapping_mul(7919).wrapping_add(p.id as u64), out, idx);
        let mut trie = Trie::new();
        for ex in &execs {
            trie.add(ex);
        }
        let mut meta = meta;
        meta["nodes"] = json!(trie.evs.len());
        meta["leaves"] = json!(trie.leaves);
        write_trie(&trie, &format!("{out}/p{idx}.trie"));
        std::fs::write(format!("{out}/p{idx}.meta"), meta.to_string()).unwrap();
        return;
    }
    let pb: Option<u32> = arg(args, "--pb").map(|x| x.parse().unwrap());
    let (trie, meta) = enumerate(p, cap, pb);
    write_trie(&trie, &format!("{out}/p{idx}.trie"));
    std::fs::write(format!("{out}/p{idx}.meta"), meta.to_string()).unwrap();
}

/// Parent: run one child process per program (bounded parallelism), then merge the tries.
fn cmd_enum(args: &[String]) {
    let progs_path = arg(args, "--progs").expect("--progs");
    let progs = read_progs(progs_path);
    let out = arg(args, "--out").expect("--out").to_string();
    let cap = arg(args, "--cap").unwrap_or("50000").to_string();
    let jobs: usize = arg(args, "--jobs").unwrap_or("12").parse().unwrap();
    let clock = args.iter().any(|a| a == "--clock");
    std::fs::create_dir_all(&out).unwrap();
    {
        // normalised copy of the programs (every field present) for TLC
        let f = std::fs::File::create(format!("{out}/progs.ndjson")).unwrap();
        let mut w = BufWriter::new(f);
        for p in &progs {
            writeln!(w, "{}", serde_json::to_string(p).unwrap()).unwrap();
        }
    }
    let exe = std::env::current_exe().unwrap();
    let mut running: Vec<(usize, std::process::Child)> = vec![];
    let mut next = 0usize;
    let mut failed: Vec<usize> = vec![];
    while next < progs.len() || !running.is_empty() {
        while next < progs.len() && running.len() < jobs {
            let mut c = std::process::Command::new(&exe);
            c.arg("one").arg("--progs").arg(progs_path).arg("--idx").arg(next.to_string()).arg("--out").arg(&out).arg("--cap").arg(&cap);
            if clock {
                c.arg("--clock");
            }
            for flag in ["--slen"] {
                if args.iter().any(|a| a == flag) {
                    c.arg(flag);
                }
            }
            for opt in ["--mode", "--iters", "--seed", "--bugs", "--pb", "--positions"] {
                if let Some(v) = arg(args, opt) {
                    c.arg(opt).arg(v);
                }
            }
            let errf = std::fs::File::create(format!("{out}/p{next}.stderr")).unwrap();
            c.stderr(errf).stdout(std::process::Stdio::null());
            running.push((next, c.spawn().expect("spawn child")));
            next += 1;
        }
        let mut i = 0;
        let mut progressed = false;
        while i < running.len() {
            if let Some(st) = running[i].1.try_wait().unwrap() {
                let (idx, _) = running.remove(i);
                if !st.success() {
                    failed.push(idx);
                }
                progressed = true;
            } else {
                i += 1;
            }
        }
        if !progressed {
            std::thread::sleep(std::time::Duration::from_millis(5));
        }
    }
    // merge
    let tf = std::fs::File::create(format!("{out}/trie.ndjson")).unwrap();
    let mut tw = BufWriter::new(tf);
    let mf = std::fs::File::create(format!("{out}/meta.ndjson")).unwrap();
    let mut mw = BufWriter::new(mf);
    // first pass: sizes
    let mut sizes = vec![0usize; progs.len()];
    for (i, s) in sizes.iter_mut().enumerate() {
        if failed.contains(&i) {
            continue;
        }
        let f = std::fs::File::open(format!("{out}/p{i}.trie")).unwrap();
        *s = BufReader::new(f).lines().count();
    }
    // global ids: root = 1; program i's local node j (j>=1) -> base[i] + j ; local node 0 is dropped
    let mut base = vec![0usize; progs.len()];
    let mut acc = 1usize;
    for i in 0..progs.len() {
        base[i] = acc;
        if sizes[i] > 0 {
            acc += sizes[i] - 1;
        }
    }
    let mut root_kids: Vec<usize> = vec![];
    let mut bodies: Vec<String> = vec![];
    for i in 0..progs.len() {
        if sizes[i] == 0 {
            continue;
        }
        let f = std::fs::File::open(format!("{out}/p{i}.trie")).unwrap();
        for (j, line) in BufReader::new(f).lines().enumerate() {
            let v: Value = serde_json::from_str(&line.unwrap()).unwrap();
            let kids: Vec<usize> = v["kids"].as_array().unwrap().iter().map(|k| base[i] + k.as_u64().unwrap() as usize).collect();
            if j == 0 {
                root_kids.extend(kids);
            } else {
                bodies.push(format!("{{\"kids\":{:?},\"ev\":{}}}", kids, v["ev"]));
            }
        }
        let _ = std::fs::remove_file(format!("{out}/p{i}.trie"));
    }
    writeln!(tw, "{{\"kids\":{:?},\"ev\":{{\"e\":\"root\"}}}}", root_kids).unwrap();
    for b in bodies {
        writeln!(tw, "{b}").unwrap();
    }
    for i in 0..progs.len() {
        if failed.contains(&i) {
            let err = std::fs::read_to_string(format!("{out}/p{i}.stderr")).unwrap_or_default();
            let tail: String = err.chars().rev().take(600).collect::<String>().chars().rev().collect();
            writeln!(mw, "{}", json!({"prog": progs[i].id, "crashed": true, "stderr": tail})).unwrap();
        } else {
            let m = std::fs::read_to_string(format!("{out}/p{i}.meta")).unwrap();
            writeln!(mw, "{m}").unwrap();
            let _ = std::fs::remove_file(format!("{out}/p{i}.meta"));
            let _ = std::fs::remove_file(format!("{out}/p{i}.stderr"));
        }
    }
}

/// Binding C: follow a specification-produced interleaving in the real runtime; report where the
/// runtime cannot follow (no decision between two steps, or the needed task is not offered).
fn cmd_directed(args: &[String]) {
    let progs = read_progs(arg(args, "--progs").expect("--progs"));
    let idx: usize = arg(args, "--idx").expect("--idx").parse().unwrap();
    let p = &progs[idx];
    let wit: Vec<(usize, usize, String)> = serde_json::from_str::<Vec<(usize, usize, String)>>(arg(args, "--witness").expect("--witness")).unwrap();
    let child_of: Vec<Vec<i64>> = p.tasks.iter().map(|t| t.iter().map(|o| if o.k.starts_with("spawn") || o.k == "sspawn" { o.v } else { -1 }).collect()).collect();
    let d = rec::Directed::new(wit.clone(), child_of);
    rec::reset_log();
    let sched = Recorder::new(d.clone(), p.id);
    let runner = Runner::new(sched, config_for(p));
    let pr = Arc::new(p.clone());
    IN_EXEC.store(true, std::sync::atomic::Ordering::Relaxed);
    let res = panic::catch_unwind(panic::AssertUnwindSafe(|| {
        runner.run(move || interp::run_main(Arc::clone(&pr)));
    }));
    IN_EXEC.store(false, std::sync::atomic::Ordering::Relaxed);
    d.st.lock().unwrap().absorb();
    match res {
        Ok(()) => rec::finish_exec_quiet(),
        Err(e) => rec::finish_exec(end_event_for_panic(&payload_msg(&e))),
    }
    let done = rec::take_done();
    let evs = done.into_iter().next().unwrap_or_default();
    let outcome = outcome_of(&evs, p.tasks.len());
    let st = d.st.lock().unwrap();
    let evv: Vec<Value> = evs.iter().map(|e| serde_json::from_str(e).unwrap()).collect();
    println!("{}", json!({"prog": p.id, "followed": st.divergence.is_none() && st.k >= st.witness.len(), "k": st.k,
        "divergence": st.divergence, "outcome": outcome.map(|o| serde_json::from_str::<Value>(&o).unwrap()), "events": evv}));
}

fn main() {
    let args: Vec<String> = std::env::args().collect();
    // keep the hook quiet inside executions: failing executions are data, not noise
    panic::set_hook(Box::new(|info| {
        if !IN_EXEC.load(std::sync::atomic::Ordering::Relaxed) {
            eprintln!("vharness: {info}");
        } else if std::env::var("VDEBUG").is_ok() {
            eprintln!("vharness(in-exec): {info}\n{}", std::backtrace::Backtrace::force_capture());
        }
    }));
    match args.get(1).map(|s| s.as_str()) {
        Some("one") => cmd_one(&args),
        Some("enum") => cmd_enum(&args),
        Some("directed") => cmd_directed(&args),
        Some("failhist") => {
            failhist::run(arg(&args, "--spec").expect("--spec"));
            return;
        }
        Some("serial") => {
            IN_EXEC.store(true, std::sync::atomic::Ordering::Relaxed);
            let r = serial::run(arg(&args, "--vectors").expect("--vectors"));
            println!("{r}");
        }
        _ => {
            eprintln!("usage: vharness enum|one ...");
            std::process::exit(2);
        }
    }
}
