//! C10: seed determinism, per-iteration reproducibility, coverage and unbiasedness of the random schedulers.
use crate::prog::Prog;
use crate::sample::{run_all, Exec};
use rand_core::{RngCore, SeedableRng};
use rand_pcg::Pcg64Mcg;
use serde_json::{json, Value};
use shuttle::scheduler::Scheduler;
use shuttle_schedulers::{RandomScheduler, UrwRandomScheduler};
use std::collections::{BTreeMap, BTreeSet};
use std::sync::Arc;

fn info(ex: &Exec) -> (u64, Vec<u64>, Vec<i64>, Vec<(usize, usize, bool, usize)>) {
    // seed, random draws, choice sequence, per decision (offered length, chosen position, current offered?, current position)
    let mut seed = 0u64;
    let mut draws = vec![];
    let mut ch = vec![];
    let mut decs = vec![];
    for e in &ex.events {
        let v: Value = serde_json::from_str(e).unwrap();
        match v["e"].as_str().unwrap() {
            "exec" => seed = v["seed"].as_str().unwrap().parse().unwrap(),
            "rnd" => draws.push(v["v"].as_str().unwrap().parse().unwrap()),
            "dec" => {
                let run: Vec<i64> = v["run"].as_array().unwrap().iter().map(|x| x.as_i64().unwrap()).collect();
                let c = v["ch"].as_i64().unwrap();
                let cur = v["cur"].as_i64().unwrap();
                ch.push(c);
                if let Some(pos) = run.iter().position(|&x| x == c) {
                    let cp = run.iter().position(|&x| x == cur);
                    decs.push((run.len(), pos, cp.is_some(), cp.unwrap_or(0)));
                }
            }
            _ => {}
        }
    }
    (seed, draws, ch, decs)
}

pub fn rand_program(p: &Prog, iters: usize, seed: u64, walker_leaves: Option<Vec<Vec<i64>>>) -> Value {
    let prog = Arc::new(p.clone());
    let cfg = crate::config_for(p);
    let mut problems: Vec<Value> = vec![];
    let mut freq: BTreeMap<(usize, usize), u64> = BTreeMap::new(); // (len, pos) -> count
    let mut ufreq: BTreeMap<(usize, usize), u64> = BTreeMap::new(); // the same for URW
    let mut cur_chosen: BTreeMap<usize, (u64, u64)> = BTreeMap::new(); // len -> (current chosen, decisions with current offered)
    let mut nexec = 0u64;
    let mut reproduced = 0u64;
    for kind in ["random", "urw"] {
        let mk = |s: u64, n: usize| -> Box<dyn Scheduler + Send> {
            if kind == "random" {
                Box::new(RandomScheduler::new_from_seed(s, n))
            } else {
                Box::new(UrwRandomScheduler::new_from_seed(s, n))
            }
        };
        // (i) same seed, same run
        let a = run_all(&prog, mk(seed, iters), &cfg, iters + 2);
        let b = run_all(&prog, mk(seed, iters), &cfg, iters + 2);
        nexec += (a.len() + b.len()) as u64;
        if a.len() != b.len() || a.iter().zip(b.iter()).any(|(x, y)| x.events != y.events) {
            problems.push(json!({"kind":"same-seed-different-run","sched":kind,"seed":seed.to_string()}));
        }
        for (i, ex) in a.iter().enumerate() {
            let (s_i, draws, _ch, decs) = info(ex);
            if kind == "urw" {
                for (len, pos, _, _) in &decs {
                    *ufreq.entry((*len, *pos)).or_insert(0) += 1;
                }
            }
            if kind == "random" {
                for (len, pos, has_cur, cpos) in decs {
                    *freq.entry((len, pos)).or_insert(0) += 1;
                    if has_cur && len > 1 {
                        let e = cur_chosen.entry(len).or_insert((0, 0));
                        e.1 += 1;
                        if cpos == pos {
                            e.0 += 1;
                        }
                    }
                }
                // (iii) the data stream and the seed chain are those of Pcg64Mcg seeded with the iteration's seed
                let mut rng = Pcg64Mcg::seed_from_u64(s_i);
                for (j, d) in draws.iter().enumerate() {
                    let want = rng.next_u64();
                    if *d != want && problems.len() < 10 {
                        problems.push(json!({"kind":"data-stream-not-from-iteration-seed","iteration":i,"draw":j,"seed":s_i.to_string()}));
                    }
                }
                if i == 0 && s_i != seed {
                    problems.push(json!({"kind":"first-iteration-seed-is-not-the-initial-seed","seed":s_i.to_string()}));
                }
                if i + 1 < a.len() {
                    let (s_next, _, _, _) = info(&a[i + 1]);
                    let want = rng.next_u64();
                    if s_next != want && problems.len() < 10 {
                        problems.push(json!({"kind":"seed-chain-broken","iteration":i,"got":s_next.to_string(),"want":want.to_string()}));
                    }
                }
                // (ii) the iteration's seed, given back with one iteration, reproduces exactly that iteration
                if i < 12 {
                    let r = run_all(&prog, mk(s_i, 1), &cfg, 3);
                    nexec += r.len() as u64;
                    if r.len() != 1 || r[0].events != ex.events {
                        if problems.len() < 10 {
                            problems.push(json!({"kind":"iteration-not-reproduced-from-its-seed","iteration":i,"seed":s_i.to_string()}));
                        }
                    } else {
                        reproduced += 1;
                    }
                }
            }
        }
        // (iv) every schedule of a tiny program is eventually visited
        if let Some(leaves) = &walker_leaves {
            if !leaves.is_empty() && leaves.len() <= 40 {
                let want: BTreeSet<Vec<i64>> = leaves.iter().cloned().collect();
                let budget = 400 * leaves.len().max(4);
                let c = run_all(&prog, mk(seed.wrapping_add(77), budget), &cfg, budget + 2);
                nexec += c.len() as u64;
                let got: BTreeSet<Vec<i64>> = c.iter().map(|e| info(e).2).collect();
                let missing: Vec<&Vec<i64>> = want.difference(&got).collect();
                // URW's weights are estimates (always >= 1, possibly very skewed): positivity is checked per
                // decision below, full coverage within a budget only for the uniform scheduler
                if !missing.is_empty() && kind == "random" {
                    problems.push(json!({"kind":"schedule-never-visited","sched":kind,"budget":budget,"missing":missing.len(),"example":missing[0]}));
                }
                let extra: Vec<&Vec<i64>> = got.difference(&want).collect();
                if !extra.is_empty() {
                    problems.push(json!({"kind":"schedule-outside-tree","sched":kind,"example":extra[0]}));
                }
            }
        }
    }
    let f: Vec<Value> = freq.iter().map(|((l, p), c)| json!([l, p, c])).collect();
    let cc: Vec<Value> = cur_chosen.iter().map(|(l, (a, b))| json!([l, a, b])).collect();
    let uf: Vec<Value> = ufreq.iter().map(|((l, p), c)| json!([l, p, c])).collect();
    json!({"prog": p.id, "execs": nexec, "reproduced": reproduced, "freq": f, "urw_freq": uf, "cur_chosen": cc, "problems": problems,
           "capped": false, "nondet": null, "outcomes": []})
}
