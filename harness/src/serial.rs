//! C16: run specification-generated vectors through the real serializer / parser.
use serde_json::{json, Value};
use shuttle_engine::scheduler::serialization::{deserialize_schedule, serialize_schedule};
use shuttle_engine::scheduler::{Schedule, ScheduleStep};
use shuttle_engine::runtime::task::TaskId;
use std::io::{BufRead, BufReader};
use std::panic;

fn to_schedule(v: &Value) -> Schedule {
    let mut seed: u64 = 0;
    for (i, d) in v["seed"].as_array().unwrap().iter().enumerate() {
        seed = seed.wrapping_add((d.as_u64().unwrap()) << (7 * i as u32));
    }
    let steps = v["steps"]
        .as_array()
        .unwrap()
        .iter()
        .map(|s| {
            let a = s.as_array().unwrap();
            if a[0] == "R" {
                ScheduleStep::Random
            } else {
                let mut id: usize = 0;
                for (i, b) in a[1].as_array().unwrap().iter().enumerate() {
                    if b.as_u64().unwrap() == 1 {
                        id |= 1usize << i;
                    }
                }
                ScheduleStep::Task(TaskId::from(id))
            }
        })
        .collect();
    Schedule { seed, steps }
}

/// Some(Some(s)) parsed, Some(None) rejected, None = the parser panicked
fn parse(s: &str) -> Option<Option<Schedule>> {
    let s = s.to_string();
    panic::catch_unwind(move || deserialize_schedule(&s)).ok()
}

pub fn run(path: &str) -> Value {
    let f = std::fs::File::open(path).expect("vectors");
    let mut n = 0u64;
    let mut checks = 0u64;
    let mut cuts_invalid = 0u64;
    let mut cuts_valid = 0u64;
    let mut malformed = 0u64;
    let mut failures: Vec<Value> = vec![];
    let mut fail = |class: &str, input: &str, detail: String, failures: &mut Vec<Value>| {
        if failures.len() < 40 {
            failures.push(json!({"class": class, "input": input, "detail": detail}));
        }
    };
    let mut nfail = 0u64;
    for line in BufReader::new(f).lines() {
        let line = line.unwrap();
        if line.trim().is_empty() {
            continue;
        }
        let v: Value = serde_json::from_str(&line).unwrap();
        let sched = to_schedule(&v);
        let want = v["str"].as_str().unwrap();
        n += 1;
        // 1. serialisation is exactly the format
        let got = serialize_schedule(&sched);
        checks += 1;
        if got != want {
            nfail += 1;
            fail("serialize", want, format!("got {got}"), &mut failures);
        }
        // 2. parsing, with and without line breaks / surrounding whitespace
        let flat: String = want.chars().filter(|c| !c.is_whitespace()).collect();
        let variants = vec![
            ("parse", want.to_string()),
            ("parse-nobreaks", flat.clone()),
            ("parse-surrounded", format!("  \n\t{want}\n \r\n")),
            ("parse-spaced", flat.chars().enumerate().map(|(i, c)| if i % 5 == 4 { format!("{c} ") } else { c.to_string() }).collect::<String>()),
        ];
        for (class, s) in variants {
            checks += 1;
            match parse(&s) {
                Some(Some(p)) if p == sched => {}
                Some(Some(p)) => {
                    nfail += 1;
                    fail(class, &s, format!("decoded to a different schedule (seed {} len {})", p.seed, p.steps.len()), &mut failures)
                }
                Some(None) => {
                    nfail += 1;
                    fail(class, &s, "rejected".into(), &mut failures)
                }
                None => {
                    nfail += 1;
                    fail(class, &s, "parser panicked".into(), &mut failures)
                }
            }
        }
        // 3. cuts decided by the specification
        for c in v["cuts"].as_array().unwrap() {
            let k = c[0].as_u64().unwrap() as usize;
            let valid = c[1].as_bool().unwrap();
            let s = &flat[..2 * k];
            checks += 1;
            match (parse(s), valid) {
                (Some(Some(p)), true) if p == sched => cuts_valid += 1,
                (Some(None), false) => cuts_invalid += 1,
                (None, _) => {
                    nfail += 1;
                    fail("cut-panic", s, format!("parser panicked on a string cut after {k} bytes"), &mut failures)
                }
                (Some(Some(_)), false) => {
                    nfail += 1;
                    fail("cut-accepted", s, format!("string cut after {k} bytes was decoded into a schedule"), &mut failures)
                }
                (Some(Some(_)), true) => {
                    nfail += 1;
                    fail("cut-different", s, format!("cut after {k} bytes decoded to a different schedule"), &mut failures)
                }
                (Some(None), true) => {
                    nfail += 1;
                    fail("cut-rejected", s, format!("cut after {k} bytes (padding only) rejected"), &mut failures)
                }
            }
        }
        // 4. textual malformations of a valid string
        let mut bad: Vec<(&str, String)> = vec![];
        if !flat.is_empty() {
            bad.push(("odd-length", flat[..flat.len() - 1].to_string()));
            let mid = flat.len() / 2;
            bad.push(("non-hex", format!("{}g{}", &flat[..mid], &flat[mid + 1..])));
            bad.push(("non-hex", format!("{}_{}", &flat[..mid], &flat[mid + 1..])));
            for m in ["90", "92", "00", "ff", "19"] {
                bad.push(("wrong-magic", format!("{m}{}", &flat[2..])));
            }
            // width 0 and width > 64
            bad.push(("width-0", format!("9100{}", &flat[4..])));
            bad.push(("width-65", format!("9141{}", &flat[4..])));
            bad.push(("width-huge", format!("91ff7f{}", &flat[4..])));
        }
        bad.push(("empty", String::new()));
        bad.push(("whitespace-only", " \n\t".to_string()));
        bad.push(("magic-only", "91".to_string()));
        bad.push(("varint-11", "9101018080808080808080808001".to_string()));
        bad.push(("varint-10th-2", "91010180808080808080808002".to_string()));
        if n == 1 {
            // leave a breadcrumb: an allocation failure aborts the process and cannot be caught
            let _ = std::fs::write(format!("{path}.last"), "len-exceeds-payload 9101ffffffff0f00ff");
            if std::env::var("VSKIP").is_err() { bad.push(("len-exceeds-payload", "9101ffffffff0f00ff".to_string())); }
            bad.push(("len-exceeds-payload", "91010a0001".to_string()));
        }
        for (class, s) in bad {
            checks += 1;
            malformed += 1;
            match parse(&s) {
                Some(None) => {}
                // a width outside 1..=64 is not among the malformations the property lists: the parser
                // may accept or reject it, but it must not crash
                Some(Some(_)) if class.starts_with("width-") => {}
                Some(Some(_)) => {
                    nfail += 1;
                    fail(class, &s, "malformed string was decoded into a schedule".into(), &mut failures)
                }
                None => {
                    nfail += 1;
                    fail(class, &s, "parser panicked".into(), &mut failures)
                }
            }
        }
    }
    let _ = std::fs::remove_file(format!("{path}.last"));
    json!({"vectors": n, "checks": checks, "cuts_valid": cuts_valid, "cuts_invalid": cuts_invalid,
           "malformed": malformed, "failed": nfail, "failures": failures})
}
