//! C11: decision logs of the real PctScheduler (priorities and change points are not observable).
use crate::prog::Prog;
use crate::sample::run_all;
use serde_json::{json, Value};
use shuttle_schedulers::PctScheduler;
use std::sync::Arc;

/// Hit rate of a depth-d bug (a given combination of op results) under PCT at depth d.
pub fn pct_bug(p: &Prog, bug: &[(usize, usize, i64)], depth: usize, iters: usize, seed: u64) -> Value {
    let prog = Arc::new(p.clone());
    let cfg = crate::config_for(p);
    let a = run_all(&prog, Box::new(PctScheduler::new_from_seed(seed, depth, iters)), &cfg, iters + 2);
    let mut hits = 0u64;
    let mut kmax = 0usize;
    let mut n_eff = 0u64;
    for (i, ex) in a.iter().enumerate() {
        let mut seen = 0;
        let mut k = 0usize;
        for e in &ex.events {
            let v: Value = serde_json::from_str(e).unwrap();
            if v["e"] == "op" {
                for (c, pc, r) in bug {
                    if v["c"].as_u64() == Some(*c as u64) && v["pc"].as_u64() == Some(*pc as u64) && v["r"].as_i64() == Some(*r) {
                        seen += 1;
                    }
                }
            } else if v["e"] == "dec" && v["run"].as_array().unwrap().len() > 1 {
                k += 1;
            }
        }
        kmax = kmax.max(k);
        // the bound speaks about iterations after the estimate of k has settled: skip the first two
        if i >= 2 {
            n_eff += 1;
            if seen == bug.len() {
                hits += 1;
            }
        }
    }
    json!({"prog": p.id, "depth": depth, "iterations": n_eff, "hits": hits, "k": kmax, "n": p.tasks.len(), "execs": a.len()})
}

pub fn pct_program(p: &Prog, iters: usize, seed: u64) -> (Value, Vec<Value>) {
    let prog = Arc::new(p.clone());
    let cfg = crate::config_for(p);
    let mut log = vec![];
    let mut runs = vec![];
    for depth in [1usize, 2, 3] {
        let a = run_all(&prog, Box::new(PctScheduler::new_from_seed(seed, depth, iters)), &cfg, iters + 2);
        let b = run_all(&prog, Box::new(PctScheduler::new_from_seed(seed, depth, iters)), &cfg, iters + 2);
        let same = a.len() == b.len() && a.iter().zip(b.iter()).all(|(x, y)| x.events == y.events);
        // PCT refuses to go on when the body never offered a choice ("did not exercise any concurrency")
        let refused = crate::sample::RETURNS.with(|r| r.borrow().iter().any(|(_, n)| *n == usize::MAX));
        log.push(json!({"e":"run","depth":depth,"ntasks":p.tasks.len(),"prog":p.id}));
        let mut bugs = 0;
        for ex in &a {
            log.push(json!({"e":"exec"}));
            for e in &ex.events {
                let v: Value = serde_json::from_str(e).unwrap();
                if v["e"] == "dec" {
                    log.push(json!({"e":"dec","run":v["run"],"cur":v["cur"],"y":v["y"],"ch":v["ch"]}));
                }
                if v["e"] == "end" && v["v"] != "ok" {
                    bugs += 1;
                }
            }
        }
        runs.push(json!({"depth":depth,"execs":a.len(),"same_seed_same_run":same,"failing":bugs,"refused":refused}));
    }
    (json!({"prog": p.id, "runs": runs, "capped": false, "nondet": null, "outcomes": []}), log)
}

/// Where do the priority change points fall?  For a program of two tasks that are always runnable and spawn nothing
/// after the start, every decision at which the running task is still offered, did not yield, and is not chosen is
/// a change point.  Position j (index among the decisions with more than one choice) is compared with the share
/// min(d-1, K-1)/(K-1) it gets when the d-1 points are drawn from [1, K-1], K = the scheduler's running estimate.
pub fn pct_positions(p: &Prog, depth: usize, iters: usize, seed: u64) -> Value {
    let prog = Arc::new(p.clone());
    let cfg = crate::config_for(p);
    let a = run_all(&prog, Box::new(PctScheduler::new_from_seed(seed, depth, iters)), &cfg, iters + 2);
    let mut kest = 0usize;
    // buckets: first (j = 1), last (j = K-1), middle
    let mut exp = [0f64; 3];
    let mut obs = [0u64; 3];
    let mut per_exec_max = 0usize;
    for (i, ex) in a.iter().enumerate() {
        let mut decs: Vec<(i64, Vec<i64>, bool, i64)> = vec![];
        for e in &ex.events {
            let v: Value = serde_json::from_str(e).unwrap();
            if v["e"] == "dec" {
                let run: Vec<i64> = v["run"].as_array().unwrap().iter().map(|x| x.as_i64().unwrap()).collect();
                if run.len() > 1 {
                    decs.push((v["cur"].as_i64().unwrap(), run, v["y"].as_bool().unwrap_or(false), v["ch"].as_i64().unwrap()));
                }
            }
        }
        if i >= 1 && kest >= 3 {
            let share = ((depth - 1).min(kest - 1)) as f64 / (kest - 1) as f64;
            let mut npre = 0usize;
            for (j, (cur, run, y, ch)) in decs.iter().enumerate() {
                if j == 0 || j > kest - 1 {
                    continue;
                }
                let b = if j == kest - 1 { 1 } else if j == 1 { 0 } else { 2 };
                exp[b] += share;
                if run.contains(cur) && !*y && ch != cur {
                    obs[b] += 1;
                    npre += 1;
                }
            }
            per_exec_max = per_exec_max.max(npre);
        }
        kest = kest.max(decs.len());
    }
    json!({"prog": p.id, "depth": depth, "execs": a.len(), "k": kest, "expected": exp, "observed": obs,
           "max_change_points_in_one_execution": per_exec_max})
}
