//! C11: decision logs of the real PctScheduler (priorities and change points are not observable).
use crate::prog::Prog;
use crate::sample::run_all;
use serde_json::{json, Value};
use shuttle_schedulers::PctScheduler;
use std::sync::Arc;

/// Hit rate of a depth-d bug (a given combination of op results) under PCT at depth d.
pub fn pct_bug(p: &Prog, bug: &[(usize, usize, i64)], depth: usize, iters: usize, seed: u64) -> Value {
    let prog = Arc::new(p.clone());
    let cfg = crate::config_for(p);
    let a = run_all(&prog, Box::new(PctScheduler::new_from_seed(seed, depth, iters)), &cfg, iters + 2);
    let mut hits = 0u64;
    let mut kmax = 0usize;
    let mut n_eff = 0u64;
    for (i, ex) in a.iter().enumerate() {
        let mut seen = 0;
        let mut k = 0usize;
        for e in &ex.events {
            let v: Value = serde_json::from_str(e).unwrap();
            if v["e"] == "op" {
                for (c, pc, r) in bug {
                    if v["c"].as_u64() == Some(*c as u64) && v["pc"].as_u64() == Some(*pc as u64) && v["r"].as_i64() == Some(*r) {
                        seen += 1;
                    }
                }
            } else if v["e"] == "dec" && v["run"].as_array().unwrap().len() > 1 {
                k += 1;
            }
        }
        kmax = kmax.max(k);
        // the bound speaks about iterations after the estimate of k has settled: skip the first two
        if i >= 2 {
            n_eff += 1;
            if seen == bug.len() {
                hits += 1;
            }
        }
    }
    json!({"prog": p.id, "depth": depth, "iterations": n_eff, "hits": hits, "k": kmax, "n": p.tasks.len(), "execs": a.len()})
}

pub fn pct_program(p: &Prog, iters: usize, seed: u64) -> (Value, Vec<Value>) {
    let prog = Arc::new(p.clone());
    let cfg = crate::config_for(p);
    let mut log = vec![];
    let mut runs = vec![];
    for depth in [1usize, 2, 3] {
        let a = run_all(&prog, Box::new(PctScheduler::new_from_seed(seed, depth, iters)), &cfg, iters + 2);
        let b = run_all(&prog, Box::new(PctScheduler::new_from_seed(seed, depth, iters)), &cfg, iters + 2);
        let same = a.len() == b.len() && a.iter().zip(b.iter()).all(|(x, y)| x.events == y.events);
        // PCT refuses to go on when the body never offered a choice ("did not exercise any concurrency")
        let refused = crate::sample::RETURNS.with(|r| r.borrow().iter().any(|(_, n)| *n == usize::MAX));
        log.push(json!({"e":"run","depth":depth,"ntasks":p.tasks.len(),"prog":p.id}));
        let mut bugs = 0;
        for ex in &a {
            log.push(json!({"e":"exec"}));
            for e in &ex.events {
                let v: Value = serde_json::from_str(e).unwrap();
                if v["e"] == "dec" {
                    log.push(json!({"e":"dec","run":v["run"],"cur":v["cur"],"y":v["y"],"ch":v["ch"]}));
                }
                if v["e"] == "end" && v["v"] != "ok" {
                    bugs += 1;
                }
            }
        }
        runs.push(json!({"depth":depth,"execs":a.len(),"same_seed_same_run":same,"failing":bugs,"refused":refused}));
    }
    (json!({"prog": p.id, "runs": runs, "capped": false, "nondet": null, "outcomes": []}), log)
}
