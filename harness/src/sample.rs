//! Sampled executions under the built-in schedulers, with the record/replay differential (C01).
use crate::interp;
use crate::prog::Prog;
use crate::rec::{self, Recorder};
use serde_json::{json, Value};
use shuttle::scheduler::{Schedule, Scheduler, Task, TaskId};
use shuttle::Runner;
use shuttle_schedulers::{
    DfsScheduler, PctScheduler, RandomScheduler, ReplayScheduler, RoundRobinScheduler,
    UncontrolledNondeterminismCheckScheduler, UrwRandomScheduler,
};
use std::panic;
use std::sync::atomic::{AtomicBool, Ordering};
use std::sync::{Arc, Mutex};

/// Keeps a scheduler alive across `Runner`s (a failing execution consumes the runner).
#[derive(Clone)]
pub struct Shared {
    pub inner: Arc<Mutex<Box<dyn Scheduler + Send>>>,
    pub exhausted: Arc<AtomicBool>,
}

impl std::fmt::Debug for Shared {
    fn fmt(&self, f: &mut std::fmt::Formatter<'_>) -> std::fmt::Result {
        f.write_str("Shared")
    }
}

impl Shared {
    pub fn new(s: Box<dyn Scheduler + Send>) -> Self {
        Shared { inner: Arc::new(Mutex::new(s)), exhausted: Arc::new(AtomicBool::new(false)) }
    }
}

impl Scheduler for Shared {
    fn new_execution(&mut self) -> Option<Schedule> {
        let r = self.inner.lock().unwrap().new_execution();
        if r.is_none() {
            self.exhausted.store(true, Ordering::SeqCst);
        }
        r
    }
    fn next_task(&mut self, runnable: &[&Task], current: Option<TaskId>, is_yielding: bool) -> Option<TaskId> {
        self.inner.lock().unwrap().next_task(runnable, current, is_yielding)
    }
    fn next_u64(&mut self) -> u64 {
        self.inner.lock().unwrap().next_u64()
    }
}

/// A user scheduler that abandons every execution at a pseudo-random decision (returns `None`).
#[derive(Debug)]
pub struct Stopper {
    inner: RandomScheduler,
    seed: u64,
    iter: u64,
    n: u64,
    stop_at: u64,
}

impl Stopper {
    pub fn new(seed: u64, iters: usize) -> Self {
        Stopper { inner: RandomScheduler::new_from_seed(seed, iters), seed, iter: 0, n: 0, stop_at: 0 }
    }
}

impl Scheduler for Stopper {
    fn new_execution(&mut self) -> Option<Schedule> {
        self.iter += 1;
        self.n = 0;
        let x = self.seed.wrapping_mul(6364136223846793005).wrapping_add(self.iter.wrapping_mul(1442695040888963407));
        self.stop_at = 1 + (x >> 33) % 14;
        self.inner.new_execution()
    }
    fn next_task(&mut self, runnable: &[&Task], current: Option<TaskId>, is_yielding: bool) -> Option<TaskId> {
        self.n += 1;
        if self.n == self.stop_at {
            return None;
        }
        self.inner.next_task(runnable, current, is_yielding)
    }
    fn next_u64(&mut self) -> u64 {
        self.inner.next_u64()
    }
}

pub struct Exec {
    pub events: Vec<String>,
    pub sched: String,
    pub sched_ok: bool,
}

thread_local! {
    /// return values of `Runner::run` (None = the run failed), in order
    pub static RETURNS: std::cell::RefCell<Vec<(Option<usize>, usize)>> = const { std::cell::RefCell::new(Vec::new()) };
}

/// Number of runs (one `Runner::run` / `replay` call each) that left `std::thread::panicking()` true on their OS thread
/// after they had returned or their panic had been caught.
pub static LEFT_PANICKING: std::sync::atomic::AtomicU64 = std::sync::atomic::AtomicU64::new(0);

/// One run on an OS thread of its own, as a test harness gives every test: whatever a run leaves behind in the
/// OS thread's own state (the panic count of an unwinding that was abandoned, the continuation pool) stays inside that run.
/// Executions of one run still share everything.
pub fn isolated<R: Send>(f: impl FnOnce() -> R + Send) -> R {
    std::thread::scope(|s| {
        std::thread::Builder::new()
            .stack_size(8 << 20)
            .spawn_scoped(s, move || {
                let r = f();
                if std::thread::panicking() {
                    LEFT_PANICKING.fetch_add(1, Ordering::SeqCst);
                }
                r
            })
            .expect("spawn")
            .join()
            .expect("isolated run")
    })
}

fn run_once<S: Scheduler + Send + 'static>(p: &Arc<Prog>, sched: S, cfg: shuttle::Config) -> Vec<Exec> {
    let (ret, out) = isolated(move || {
        rec::reset_log_keep_tokens();
        let runner = Runner::new(Recorder::new(sched, p.id), cfg);
        let pr = Arc::clone(p);
        crate::IN_EXEC.store(true, Ordering::Relaxed);
        let res = panic::catch_unwind(panic::AssertUnwindSafe(|| runner.run(move || interp::run_main(Arc::clone(&pr)))));
        crate::IN_EXEC.store(false, Ordering::Relaxed);
        let ret = match res {
            Ok(n) => {
                rec::finish_exec_quiet();
                Some(n)
            }
            Err(e) => {
                rec::finish_exec(crate::end_event_for_panic(&crate::payload_msg(&e)));
                None
            }
        };
        let out: Vec<Exec> = rec::take_done_full().into_iter().map(|(events, sched, ok)| Exec { events, sched, sched_ok: ok }).collect();
        (ret, out)
    });
    RETURNS.with(|r| r.borrow_mut().push((ret, out.len())));
    out
}

/// All executions a scheduler produces for the program (continuing after failing ones).
pub fn run_all(p: &Arc<Prog>, s: Box<dyn Scheduler + Send>, cfg: &shuttle::Config, max_execs: usize) -> Vec<Exec> {
    let shared = Shared::new(s);
    let mut out = vec![];
    rec::reset_log();
    RETURNS.with(|r| r.borrow_mut().clear());
    let mut guard = 0;
    while !shared.exhausted.load(Ordering::SeqCst) && out.len() < max_execs && guard < 10 * max_execs + 10 {
        guard += 1;
        let r = run_once(p, shared.clone(), cfg.clone());
        if r.is_empty() && !shared.exhausted.load(Ordering::SeqCst) {
            // the scheduler itself refused to go on (e.g. PCT: "test closure did not exercise any concurrency")
            RETURNS.with(|x| x.borrow_mut().push((None, usize::MAX)));
            break;
        }
        out.extend(r);
    }
    out
}

fn first_diff(a: &[String], b: &[String]) -> Value {
    let n = a.len().min(b.len());
    for i in 0..n {
        if a[i] != b[i] {
            return json!({"at": i, "recorded": a[i], "replayed": b[i]});
        }
    }
    json!({"at": n, "recorded": a.get(n), "replayed": b.get(n), "len_recorded": a.len(), "len_replayed": b.len()})
}

fn ops_only(evs: &[String]) -> Vec<String> {
    evs.iter().filter(|e| e.starts_with("{\"c\":") || e.contains("\"e\":\"op\"")).cloned().collect()
}

pub fn sample_program(p: &Prog, iters: usize, seed: u64, outdir: &str, idx: usize) -> (Vec<Vec<String>>, Value) {
    let prog = Arc::new(p.clone());
    let cfg = crate::config_for(p);
    let ntasks = p.tasks.len();
    let mut kinds: Vec<(&str, Box<dyn Scheduler + Send>)> = vec![
        ("random", Box::new(RandomScheduler::new_from_seed(seed, iters))),
        ("urw", Box::new(UrwRandomScheduler::new_from_seed(seed.wrapping_add(1), iters))),
        ("dfs", Box::new(DfsScheduler::new(Some(iters), true))),
        ("rr", Box::new(RoundRobinScheduler::new(1))),
        ("stopper", Box::new(Stopper::new(seed.wrapping_add(5), iters))),
    ];
    if ntasks > 1 {
        kinds.push(("pct", Box::new(PctScheduler::new_from_seed(seed.wrapping_add(2), 3, iters))));
    }
    let mut all: Vec<Vec<String>> = vec![];
    let mut mismatches: Vec<Value> = vec![];
    let mut counts = serde_json::Map::new();
    let mut replays = 0u64;
    let mut failing = 0u64;
    // small iteration budgets: the body runs exactly as often as the budget allows
    let mut budgets: Vec<Value> = vec![];
    for b in [0usize, 1, 2, 5] {
        for (kind, s) in [
            ("random", Box::new(RandomScheduler::new_from_seed(seed, b)) as Box<dyn Scheduler + Send>),
            ("urw", Box::new(UrwRandomScheduler::new_from_seed(seed, b))),
            ("dfs", Box::new(DfsScheduler::new(Some(b), true))),
        ] {
            let ex = run_all(&prog, s, &cfg, b + 3);
            let rets: Vec<(Option<usize>, usize)> = RETURNS.with(|r| r.borrow().clone());
            budgets.push(json!({"sched": kind, "budget": b, "execs": ex.len(), "returns": rets}));
        }
    }
    for (kind, s) in kinds {
        let execs = run_all(&prog, s, &cfg, iters + 2);
        let rets: Vec<(Option<usize>, usize)> = RETURNS.with(|r| r.borrow().clone());
        budgets.push(json!({"sched": kind, "budget": if kind == "rr" { 1 } else { iters }, "execs": execs.len(), "returns": rets}));
        counts.insert(kind.to_string(), json!(execs.len()));
        for (i, ex) in execs.iter().enumerate() {
            if !ex.sched_ok && mismatches.len() < 20 {
                mismatches.push(json!({"kind":"runtime-schedule-differs-from-scheduler-calls","sched":kind,"schedule":ex.sched}));
            }
            if ex.events.last().map(|e| !e.contains("\"v\":\"ok\"")).unwrap_or(false) {
                failing += 1;
            }
            if ex.events.last().map(|e| e.contains("\"v\":\"stopped\"")).unwrap_or(false) {
                // abandoned by the scheduler: the record is a prefix, there is nothing to replay to the end
                continue;
            }
            // replay from the printed string form (with its line breaks)
            rec::reset_log();
            let r = run_once(&prog, ReplayScheduler::new_from_encoded(&ex.sched), cfg.clone());
            replays += 1;
            let ok = r.len() == 1 && r[0].events == ex.events;
            if !ok && mismatches.len() < 20 {
                let d = if r.is_empty() { json!("no execution") } else { first_diff(&ex.events, &r[0].events) };
                mismatches.push(json!({"kind":"replay-differs","sched":kind,"schedule":ex.sched,"diff":d}));
            }
            if i < 3 {
                // without line breaks
                let flat: String = ex.sched.chars().filter(|c| !c.is_whitespace()).collect();
                rec::reset_log();
                let r = run_once(&prog, ReplayScheduler::new_from_encoded(&flat), cfg.clone());
                replays += 1;
                if !(r.len() == 1 && r[0].events == ex.events) && mismatches.len() < 20 {
                    mismatches.push(json!({"kind":"replay-differs","variant":"no-line-breaks","sched":kind,"schedule":flat}));
                }
                // through the public entry points (default Config): compare the bodies' own op logs
                for via in ["replay", "replay_from_file"] {
                    rec::reset_log();
                    let pr = Arc::clone(&prog);
                    let sch = ex.sched.clone();
                    let path = format!("{outdir}/p{idx}.schedule.txt");
                    if via == "replay_from_file" {
                        std::fs::write(&path, &sch).unwrap();
                    }
                    let got = isolated(|| {
                        rec::open_plain();
                        crate::IN_EXEC.store(true, Ordering::Relaxed);
                        let _ = panic::catch_unwind(panic::AssertUnwindSafe(|| {
                            if via == "replay" {
                                shuttle::replay(move || interp::run_main(Arc::clone(&pr)), &sch);
                            } else {
                                shuttle::replay_from_file(move || interp::run_main(Arc::clone(&pr)), &path);
                            }
                        }));
                        crate::IN_EXEC.store(false, Ordering::Relaxed);
                        rec::take_plain()
                    });
                    replays += 1;
                    if ops_only(&got) != ops_only(&ex.events) && mismatches.len() < 20 {
                        mismatches.push(json!({"kind":"replay-differs","variant":via,"sched":kind,"schedule":ex.sched,
                                               "diff": first_diff(&ops_only(&ex.events), &ops_only(&got))}));
                    }
                    let _ = std::fs::remove_file(format!("{outdir}/p{idx}.schedule.txt"));
                }
            }
        }
        for ex in execs {
            all.push(ex.events);
        }
    }
    // the nondeterminism checker must not reject a body whose only nondeterminism is scheduling and rand
    rec::reset_log();
    let pr = Arc::clone(&prog);
    let und = UncontrolledNondeterminismCheckScheduler::new(RandomScheduler::new_from_seed(seed.wrapping_add(3), iters.min(30)));
    let ucfg = cfg.clone();
    let res = isolated(move || {
        rec::open_plain();
        let runner = Runner::new(und, ucfg);
        crate::IN_EXEC.store(true, Ordering::Relaxed);
        let res = panic::catch_unwind(panic::AssertUnwindSafe(|| {
            runner.run(move || interp::run_main(Arc::clone(&pr)));
        }));
        crate::IN_EXEC.store(false, Ordering::Relaxed);
        let _ = rec::take_plain();
        res.map_err(|e| crate::payload_msg(&e))
    });
    let mut und_verdict = "passed".to_string();
    if let Err(msg) = res {
        if msg.starts_with("possible nondeterminism") {
            mismatches.push(json!({"kind":"nondeterminism-checker-rejected","msg":msg}));
            und_verdict = "rejected".into();
        } else {
            und_verdict = "body-failed".into();
        }
    }
    let meta = json!({"prog": p.id, "execs": all.len(), "by_scheduler": counts, "replays": replays, "failing": failing,
                      "und": und_verdict, "left_panicking": LEFT_PANICKING.load(Ordering::SeqCst), "budgets": budgets, "mismatches": mismatches, "capped": false, "nondet": null, "outcomes": []});
    (all, meta)
}
