"""Program generator for the shared JSON program language (DESIGN.md 3.1, 6).

Every family is a mix of hand-picked shapes (fixed corpus) and grammar-generated programs seeded
from VERIF_SEED.  Well-formedness (balanced guards, handles used by their owners, every code index
spawned exactly once by its parent) is enforced here so that the interpreter can stay dumb.
"""
import random


def op(k, o=0, v=0, w=0):
    return {"k": k, "o": o, "v": v, "w": w}


def prog(pid, fam, tasks, nmutex=0, atomics=(), ncv=0, nrw=0, chans=(), sems=(), barriers=(), nonce=0,
         maxsteps=0, kinds=None, nflags=0):
    return {"id": pid, "fam": fam, "nmutex": nmutex, "atomics": list(atomics), "ncv": ncv, "nrw": nrw,
            "chans": list(chans), "sems": [{"n": n, "fair": f} for (n, f) in sems],
            "barriers": list(barriers), "nonce": nonce, "nflags": nflags,
            "kinds": kinds or ["thread"] * len(tasks), "tasks": tasks, "maxsteps": maxsteps,
            "tls_touch": [-1, -1, -1], "tls_yield": [0, 0, 0]}


class Env:
    """Tracks what a task may legally do next while its code is generated."""

    def __init__(self, rng, nmutex=0, natom=0, ncv=0, nrw=0, nchan=0, nsem=0, nbar=0, nonce=0):
        self.rng = rng
        self.nmutex, self.natom, self.ncv, self.nrw = nmutex, natom, ncv, nrw
        self.nchan, self.nsem, self.nbar, self.nonce = nchan, nsem, nbar, nonce


def gen_task(rng, alphabet, nops, env, state):
    """Generate `nops` operations for one task from `alphabet` (list of op-kind names).
    `state` carries: held guards {slot: (kind,obj)}, tx handles per channel."""
    code = []
    held = {}
    tries = 0
    while len(code) < nops and tries < 200:
        tries += 1
        k = rng.choice(alphabet)
        free_slots = [s for s in range(4) if s not in held]
        if k in ("lock", "try_lock"):
            if not free_slots or env.nmutex == 0:
                continue
            m = rng.randrange(env.nmutex)
            if any(g == ("m", m) for g in held.values()):
                continue  # re-entrancy is exercised by dedicated fixed programs
            s = free_slots[0]
            code.append(op(k, o=m, w=s))
            if k == "lock":
                held[s] = ("m", m)
            else:
                # a try_lock may fail: pair it with a conditional-free pattern by releasing via `unlock_if`
                code.append(op("unlock_if", w=s))
        elif k in ("read", "write", "try_read", "try_write"):
            if not free_slots or env.nrw == 0:
                continue
            r = rng.randrange(env.nrw)
            if any(g[1] == r and g[0] in ("r", "w") for g in held.values()):
                continue
            s = free_slots[0]
            code.append(op(k, o=r, w=s))
            if k in ("read", "write"):
                held[s] = ("r" if k == "read" else "w", r)
            else:
                code.append(op("unlock_if", w=s))
        elif k == "unlock":
            if not held:
                continue
            s = rng.choice(sorted(held))
            del held[s]
            code.append(op("unlock", w=s))
        elif k in ("ginc", "gget"):
            if not held:
                continue
            s = rng.choice(sorted(held))
            code.append(op(k, w=s))
        elif k == "cv_wait":
            ms = [(s, g) for s, g in held.items() if g[0] == "m"]
            if not ms or env.ncv == 0:
                continue
            s, g = rng.choice(ms)
            code.append(op("cv_wait", o=rng.randrange(env.ncv), v=g[1], w=s))
        elif k in ("notify_one", "notify_all"):
            if env.ncv == 0:
                continue
            code.append(op(k, o=rng.randrange(env.ncv)))
        elif k.startswith("b_"):
            # the AtomicBool cell of the atomic family is the extra cell after the env.natom u8 cells
            code.append(op(k, o=env.natom, v=rng.randrange(2), w=rng.choice([0, 1, 4]) if k not in ("b_load", "b_store") else rng.choice([0, 1])))
        elif k in ("load", "store", "fadd", "swap", "fsub", "fmax", "fmin", "cas", "fand", "for", "fxor", "fnand"):
            if env.natom == 0:
                continue
            a = rng.randrange(env.natom)
            if k == "load":
                code.append(op(k, o=a, w=rng.choice([0, 1, 2])))
            elif k == "cas":
                code.append(op(k, o=a, v=rng.randrange(3), w=rng.randrange(1, 4)))
            else:
                code.append(op(k, o=a, v=rng.randrange(1, 4), w=rng.choice([0, 1, 3]) if k == "store" else rng.choice([0, 1, 4])))
        elif k in ("yield", "spin", "sleep", "park", "rand", "reset_steps"):
            code.append(op(k))
        elif k == "unpark":
            targets = state.get("unpark_targets", [])
            if not targets:
                continue
            code.append(op("unpark", v=rng.choice(targets)))
        elif k == "label_set":
            code.append(op("label_set", v=rng.randrange(1, 9)))
        elif k in ("tls_get", "tls_set"):
            code.append(op(k, o=rng.randrange(3), v=rng.randrange(1, 9)))
        elif k in ("lz_fadd", "lz_load"):
            code.append(op(k, o=rng.randrange(2), v=rng.randrange(1, 4)))
        elif k == "sonce":
            w = rng.randrange(env.natom) if env.natom and rng.random() < 0.6 else -1
            code.append(op(k, o=rng.randrange(2), v=rng.randrange(1, 4), w=w))
        elif k == "sonce_done":
            code.append(op(k, o=rng.randrange(2)))
        elif k in ("tid", "name", "me", "label_get"):
            code.append(op(k))
        elif k in ("barrier_wait",):
            if env.nbar == 0:
                continue
            b = rng.randrange(env.nbar)
            # reuse of a barrier by the same task is exercised by the dedicated reuse family
            if not state.get("barrier_reuse") and any(o["k"] == "barrier_wait" and o["o"] == b for o in code):
                continue
            code.append(op(k, o=b))
        elif k == "call_once":
            if env.nonce == 0:
                continue
            w = rng.randrange(env.natom) if env.natom and rng.random() < 0.7 else -1
            code.append(op(k, o=rng.randrange(env.nonce), v=rng.randrange(1, 4), w=w))
        elif k == "is_completed":
            if env.nonce == 0:
                continue
            code.append(op(k, o=rng.randrange(env.nonce)))
        elif k in ("acquire", "try_acquire", "release"):
            if env.nsem == 0:
                continue
            code.append(op(k, o=rng.randrange(env.nsem), v=rng.randrange(1, 3)))
        elif k in ("close", "avail", "is_closed"):
            if env.nsem == 0:
                continue
            code.append(op(k, o=rng.randrange(env.nsem)))
        else:
            raise ValueError(k)
    # release what is still held, in reverse slot order
    for s in sorted(held, reverse=True):
        code.append(op("unlock", w=s))
    return code


def wrap_threads(rng, bodies, parent, join_prob=0.8):
    """Parents spawn their children in index order at random positions of their own body, and join
    some of them at the end."""
    n = len(bodies)
    tasks = [list(b) for b in bodies]
    for p in range(n):
        kids = [c for c in range(1, n) if parent[c] == p]
        # positions in the first half of the parent's body, non-decreasing so that index order is kept
        poss = sorted(rng.randrange(0, len(bodies[p]) // 2 + 1) for _ in kids)
        for c, pos in reversed(list(zip(kids, poss))):
            tasks[p].insert(pos, op("spawn", v=c))
    for c in range(1, n):
        if rng.random() < join_prob:
            t = tasks[parent[c]]
            sp = next(i for i, o in enumerate(t) if o["k"] == "spawn" and o["v"] == c)
            # mostly at the end, sometimes in the middle of the parent's body (operations after a join);
            # never inside a critical section opened before it (keep guard slots balanced around it)
            if rng.random() < 0.35:
                cands = [i for i in range(sp + 1, len(t) + 1) if balanced(t[:i])]
                pos = rng.choice(cands) if cands else len(t)
            else:
                pos = len(t)
            t.insert(pos, op("join", v=c))
    return tasks


def balanced(code):
    held = 0
    for o in code:
        if o["k"] in ("lock", "read", "write"):
            held += 1
        elif o["k"] == "unlock":
            held -= 1
    return held == 0


FAMILIES = {
    # name: (alphabet, objects)
    "kernel": (["load", "store", "fadd", "yield", "sleep", "spin"], dict(natom=2)),
    "kernel_rand": (["load", "store", "fadd", "yield", "rand", "rand", "spin"], dict(natom=1)),
    "mutex": (["lock", "lock", "try_lock", "unlock", "ginc", "gget", "yield", "load", "store"], dict(nmutex=2, natom=1)),
    "atomic": (["load", "store", "fadd", "swap", "fsub", "fmax", "fmin", "cas", "fand", "for", "fxor", "fnand",
                "b_load", "b_store", "b_swap", "b_and", "b_or", "b_xor", "b_nand", "b_nand"], dict(natom=2)),
    "rwlock": (["read", "write", "try_read", "try_write", "unlock", "ginc", "gget", "yield"], dict(nrw=1, natom=1)),
    "condvar": (["lock", "cv_wait", "notify_one", "notify_all", "unlock", "store", "load"], dict(nmutex=1, ncv=1, natom=1)),
    "park": (["park", "unpark", "yield", "store", "load"], dict(natom=1)),
    # park tokens against tasks blocked in other primitives
    "park_mix": (["park", "unpark", "unpark", "barrier_wait", "lock", "unlock", "load"], dict(natom=1, nmutex=1, nbar=1)),
    "barrier": (["barrier_wait", "barrier_wait", "fadd", "load"], dict(nbar=1, natom=1)),
    "barrier_reuse": (["barrier_wait", "barrier_wait", "barrier_wait", "fadd", "load"], dict(nbar=1, natom=1)),
    "once": (["call_once", "call_once", "is_completed", "load", "store"], dict(nonce=1, natom=1)),
    "tls": (["tls_get", "tls_set", "tls_set", "tls_set", "yield", "lock", "unlock", "load", "store"], dict(nmutex=1, natom=1)),
    "statics": (["lz_fadd", "lz_fadd", "lz_load", "sonce", "sonce", "sonce_done", "load", "store"], dict(natom=1)),
    "ident": (["tid", "name", "me", "yield", "load", "store", "label_set", "label_set", "label_get", "label_get"], dict(natom=1)),
    "sem_unfair": (["acquire", "acquire", "try_acquire", "release", "release", "yield", "fadd", "load"], dict(nsem=1, natom=1)),
    "sem_fair": (["acquire", "acquire", "try_acquire", "release", "release", "yield", "fadd", "load"], dict(nsem=1, natom=1)),
    # with state observers that are not scheduling points (trace validation only)
    "sem_unfair_obs": (["acquire", "try_acquire", "release", "release", "avail", "close", "is_closed"], dict(nsem=1)),
    "sem_fair_obs": (["acquire", "try_acquire", "release", "release", "avail", "close", "is_closed"], dict(nsem=1)),
}


def gen_mpsc(count, seed, drops=False, first_id=2000, fam="mpsc"):
    """One channel, receiver = main or a dedicated task, 1-2 senders with their own handle."""
    rng = random.Random(f"{fam}:{seed}")
    out = []
    for i in range(count):
        cap = rng.choice([-1, 0, 1, 1, 2])
        nsend = rng.randint(1, 2)
        n = 1 + nsend
        tasks = [[] for _ in range(n)]
        main = tasks[0]
        # handles: sender c uses slot c (cloned from slot 0 by main before the spawn)
        for c in range(1, n):
            main.append(op("clone_tx", o=0, v=0, w=c))
        for c in range(1, n):
            main.append(op("spawn", v=c))
        if drops and rng.random() < 0.7:
            main.append(op("drop_tx", o=0, w=0))
        for c in range(1, n):
            k = rng.randint(1, 2)
            for j in range(k):
                kind = "try_send" if rng.random() < 0.25 else "send"
                tasks[c].append(op(kind, o=0, v=10 * c + j, w=c))
            if drops and rng.random() < 0.6:
                tasks[c].append(op("drop_tx", o=0, w=c))
        nrecv = rng.randint(1, 3)
        if rng.random() < 0.25:
            # the receiver is consumed through its owning iterator (`for x in rx`)
            for j in range(nrecv):
                main.append(op("recv", o=0, w=1))
        else:
            for j in range(nrecv):
                main.append(op("try_recv" if rng.random() < 0.3 else "recv", o=0))
            if drops and rng.random() < 0.4:
                main.append(op("drop_rx", o=0))
        for c in range(1, n):
            if rng.random() < 0.7:
                main.append(op("join", v=c))
        out.append(prog(first_id + i, fam, tasks, chans=[cap]))
    return out


def gen_async(count, seed, first_id=4000, fam="async", with_abort=True, with_sem=False, with_lock=False, with_wake=False):
    """A main thread and 1-3 future tasks: hand-written waker slots (flags), yields, joins through block_on
    or from other futures, abort / detach at any point."""
    rng = random.Random(f"{fam}:{seed}")
    out = []
    for i in range(count):
        nf = rng.randint(1, 3)
        n = 1 + nf
        nflags = 2
        awaited = set()
        nrecv = [0]
        tasks = [[] for _ in range(n)]
        parent = {c: 0 for c in range(1, n)}
        if n >= 3 and rng.random() < 0.3:
            parent[2] = 1
        # future bodies
        for c in range(1, n):
            body = []
            for _ in range(rng.randint(1, 3)):
                k = rng.choice(["ayield", "await_flag", "set_flag", "load", "store", "fadd", "wake_only"] + (["acquire", "release"] if with_sem else [])
                               + (["lockpair", "lockpair"] if with_lock else [])
                               + (["reg_flag", "reg_flag", "suspend", "suspend", "recv"] if with_wake else []))
                if k == "reg_flag":
                    body.append(op("reg_flag", o=rng.randrange(nflags)))
                    continue
                if k == "suspend":
                    body.append(op("suspend"))
                    continue
                if k == "recv":
                    # a blocking std receive inside the poll (TaskState::Blocked while it waits)
                    body.append(op("recv", o=0))
                    nrecv[0] += 1
                    continue
                if k == "lockpair":
                    # a blocking critical section inside one poll (no await while the guard is held)
                    body += [op("lock", o=0, w=0)] + ([op("fadd", o=0, v=1)] if rng.random() < 0.4 else []) + [op("unlock", w=0)]
                    continue
                if k == "await_flag":
                    free = [f for f in range(nflags) if f not in awaited]
                    if not free:
                        continue
                    f = rng.choice(free)
                    awaited.add(f)
                    body.append(op("await_flag", o=f))
                elif k in ("set_flag", "wake_only"):
                    body.append(op(k, o=rng.randrange(nflags)))
                elif k == "ayield":
                    body.append(op("ayield"))
                elif k in ("acquire", "release"):
                    body.append(op(k, o=0, v=1))
                elif k == "load":
                    body.append(op("load", o=0))
                else:
                    body.append(op(k, o=0, v=rng.randrange(1, 4)))
            tasks[c] = body
        # spawns (parents spawn in index order at the start of their body)
        for p_ in range(n):
            kids = [c for c in range(1, n) if parent[c] == p_]
            for c in reversed(kids):
                tasks[p_].insert(0, op("spawn_future", v=c))
        # what happens to each handle
        main_tail = []
        for c in range(1, n):
            fate = rng.choice(["join", "join", "detach", "keep", "abort_join", "abort"] if with_abort else ["join", "join", "detach", "keep"])
            owner = parent[c]
            acts = []
            if fate.startswith("abort"):
                acts.append(op("abort", v=c))
                if rng.random() < 0.3:
                    acts.append(op("abort", v=c))
            if fate in ("join", "abort_join"):
                if rng.random() < 0.35:
                    acts.append(op("try_join", v=c))      # a now_or_never style probe first
                if owner == 0:
                    acts += [op("bo_begin"), op("await_join", v=c), op("bo_end")]
                else:
                    acts.append(op("await_join", v=c))
            elif fate == "detach":
                acts.append(op("detach", v=c))
            if owner == 0:
                # main may do something before deciding
                pre = []
                for _ in range(rng.randint(0, 2)):
                    k = rng.choice(["set_flag", "yield", "load", "store", "wake_only"] + (["lockspan", "lockspan"] if with_lock else [])
                                   + (["wake_only", "wake_only"] if with_wake else []))
                    if k == "lockspan":
                        # main holds the mutex across a scheduling point, so that a future can block inside its poll
                        mid = rng.choice([op("yield"), op("set_flag", o=rng.randrange(nflags)), op("wake_only", o=rng.randrange(nflags)), op("load", o=0)])
                        pre += [op("lock", o=0, w=0), mid, op("unlock", w=0)]
                    elif k in ("set_flag", "wake_only"):
                        pre.append(op(k, o=rng.randrange(nflags)))
                    elif k == "yield":
                        pre.append(op("yield"))
                    elif k == "load":
                        pre.append(op("load", o=0))
                    else:
                        pre.append(op("store", o=0, v=rng.randrange(1, 4)))
                main_tail += pre + acts
            else:
                tasks[owner] += acts
        tasks[0] += main_tail
        # flags that are awaited but never set would deadlock every schedule: make sure main sets them at the end (mostly)
        for f in sorted(awaited):
            if not any(o["k"] == "set_flag" and o["o"] == f for t in tasks for o in t) or rng.random() < 0.3:
                if rng.random() < 0.85:
                    tasks[0].append(op("set_flag", o=f))
        kinds = ["thread"] + ["future"] * nf
        if with_wake:
            # main feeds the channel (one message per receive, sometimes one short) between its other steps
            tasks[0] = [op("clone_tx", o=0, v=0, w=1)] + tasks[0]
            for _ in range(max(0, nrecv[0] - (1 if rng.random() < 0.15 else 0))):
                at = rng.randrange(1 + nf, len(tasks[0]) + 1)
                tasks[0].insert(at, op("send", o=0, v=rng.randrange(1, 9), w=1))
            # a few late wakes so that suspended futures can finish
            for f in range(nflags):
                if rng.random() < 0.7:
                    tasks[0].append(op("wake_only", o=f))
        if with_lock and rng.random() < 0.5:
            # the abort / join decisions of main happen while it holds the mutex
            acts_at = next((j for j, o_ in enumerate(tasks[0]) if o_["k"] in ("abort", "bo_begin", "detach", "try_join")), None)
            if acts_at is not None and not any(o_["k"] == "lock" for o_ in tasks[0]):
                j2 = acts_at + 1 if tasks[0][acts_at]["k"] != "bo_begin" else acts_at
                if tasks[0][acts_at]["k"] != "bo_begin":
                    tasks[0] = tasks[0][:acts_at] + [op("lock", o=0, w=0), op("yield"), tasks[0][acts_at], op("unlock", w=0)] + tasks[0][j2:]
        out.append(prog(first_id + i, fam, tasks, atomics=[0], nflags=nflags, kinds=kinds, nmutex=1 if with_lock else 0, chans=[-1] if with_wake else (),
                        sems=[(rng.randint(0, 1), rng.choice([0, 1]))] if with_sem else ()))
    return out


def gen_scope(count, seed, first_id=3500):
    """thread::scope with 1-2 scoped threads, ops inside the scope body and after it; thread-locals in
    the scoped threads (their destructors may run after the scope has returned)."""
    rng = random.Random(f"scope:{seed}")
    out = []
    alphabet = ["load", "store", "fadd", "yield", "tls_set", "tls_get", "lock", "unlock"]
    for i in range(count):
        n = rng.randint(2, 3)
        env = Env(rng, nmutex=1, natom=1)
        bodies = [gen_task(rng, alphabet, rng.randint(1, 3), env, {}) for _ in range(n)]
        main = [op("scope_begin")]
        for c in range(1, n):
            main.append(op("sspawn", v=c))
            if rng.random() < 0.5:
                main += gen_task(rng, ["load", "store", "yield"], 1, env, {})
        # sometimes a scoped thread is joined from inside the scope body
        for c in range(1, n):
            if rng.random() < 0.35:
                main.append(op("join", v=c))
                if rng.random() < 0.5:
                    main += gen_task(rng, ["load", "store"], 1, env, {})
        main.append(op("scope_end"))
        main += bodies[0]
        pr = prog(first_id + i, "scope", [main] + bodies[1:], nmutex=1, atomics=[0])
        pr["tls_touch"] = [rng.choice([-1, 1]), rng.choice([-1, -1, 2]), -1]
        pr["tls_yield"] = [rng.choice([0, 1]), rng.choice([0, 0, 1]), rng.choice([0, 0, 1])]
        out.append(pr)
    return out


def gen_bounds(count, seed, first_id=3000):
    """Bodies with known step counts under step bounds around them (both bound kinds)."""
    rng = random.Random(f"bounds:{seed}")
    out = []
    base = gen_family("kernel", count, seed + 17, ntasks=(1, 3), nops=(1, 3)) + \
        gen_family("kernel_rand", count, seed + 18, ntasks=(1, 2), nops=(1, 4)) + \
        gen_family("mutex", count // 2 + 1, seed + 19, ntasks=(2, 2), nops=(1, 3))
    rng.shuffle(base)
    for i, p in enumerate(base[:count]):
        p = dict(p)
        p["fam"] = "bounds"
        p["id"] = first_id + i
        steps = sum(len(t) for t in p["tasks"]) + 2
        n = max(1, steps + rng.choice([-3, -2, -1, 0, 1, 2]))
        p["maxsteps"] = n if rng.random() < 0.5 else -n
        if rng.random() < 0.3:
            t = rng.randrange(len(p["tasks"]))
            p["tasks"] = [list(x) for x in p["tasks"]]
            p["tasks"][t].insert(rng.randrange(len(p["tasks"][t]) + 1), op("reset_steps"))
        out.append(p)
    return out


def family(fam, count, seed):
    if fam == "async":
        return gen_async(count, seed)
    if fam == "async_noabort":
        return gen_async(count, seed, first_id=4500, fam="async_noabort", with_abort=False)
    if fam == "async_sem":
        return gen_async(count, seed, first_id=5000, fam="async_sem", with_sem=True)
    if fam == "async_wake":
        return gen_async(count, seed, first_id=6000, fam="async_wake", with_lock=True, with_wake=True)
    if fam == "async_blk":
        return gen_async(count, seed, first_id=5500, fam="async_blk", with_lock=True)
    if fam == "scope":
        return gen_scope(count, seed)
    if fam == "bounds":
        return gen_bounds(count, seed)
    if fam == "mpsc":
        return gen_mpsc(count, seed, drops=False)
    if fam == "mpsc_drop":
        return gen_mpsc(count, seed, drops=True, first_id=2500, fam="mpsc_drop")
    return gen_family(fam, count, seed)


def gen_family(fam, count, seed, ntasks=(2, 3), nops=(1, 3), first_id=1000):
    rng = random.Random((hash(fam) & 0xffff) * 1000003 + seed)
    rng = random.Random(f"{fam}:{seed}")
    alphabet, objs = FAMILIES[fam]
    out = []
    for i in range(count):
        n = rng.randint(*ntasks)
        env = Env(rng, **objs)
        # task tree first (parents spawn their children in index order), then the bodies
        parent = {c: 0 for c in range(1, n)}
        if n >= 3 and rng.random() < 0.4:
            parent[2] = 1
        bodies = []
        for c in range(n):
            anc = []
            x = c
            while x in parent:
                x = parent[x]
                anc.append(x)
            sibs = [d for d in range(1, c) if parent[d] == parent.get(c)]
            state = {"unpark_targets": sorted(set(anc + sibs + [c])), "barrier_reuse": fam == "barrier_reuse"}
            bodies.append(gen_task(rng, alphabet, rng.randint(*nops), env, state))
        tasks = wrap_threads(rng, bodies, parent)
        if fam == "ident":
            # half of the threads are spawned through thread::Builder with a name
            for t_ in tasks:
                for o_ in t_:
                    if o_["k"] == "spawn" and rng.random() < 0.5:
                        o_["k"] = "spawn_named"
        kw = dict(nmutex=objs.get("nmutex", 0), atomics=[0] * objs.get("natom", 0), ncv=objs.get("ncv", 0),
                  nrw=objs.get("nrw", 0), nonce=objs.get("nonce", 0))
        if objs.get("nbar"):
            kw["barriers"] = [rng.choice([1, 2, 2, 3])]
        if objs.get("nsem"):
            kw["sems"] = [(rng.randint(0, 2), 1 if fam == "sem_fair" else 0)]
        pr = prog(first_id + i, fam, tasks, **kw)
        if fam == "atomic":
            pr["atomics"] = pr["atomics"] + [rng.randrange(2)]
            pr["boolcells"] = [len(pr["atomics"]) - 1]
        if fam == "tls":
            # destructors that read another key (alive, already destroyed, or never initialised) and/or yield while dropping
            pr["tls_touch"] = [rng.choice([-1, -1] + [x for x in range(3) if x != k_]) for k_ in range(3)]
            pr["tls_yield"] = [rng.choice([0, 0, 1]) for _ in range(3)]
        out.append(pr)
    return out
