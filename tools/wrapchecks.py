"""Checks over the wrapper crates: C19 (tokio replacements vs spec/Tokio.tla) and C20 (parking_lot / dashmap /
collections vs spec/Locks.tla)."""
import hashlib
import json
import os
import sys
import time

import vlib
import wrapgen
from vlib import log


def fmt_ev(e):
    k = e.get("e")
    if k == "call":
        return f"call t{e['t']} pc{e['pc']} {e['k']}({e['o']},{e['v']})"
    if k == "ret":
        return f"ret  t{e['t']} pc{e['pc']} {e['k']} = {e['r']}"
    return json.dumps(e)


def fmt_problem(v):
    out = [f"--- {v['kind']}  sig={v['sig']}"]
    if "prog" in v:
        out.append(wrapgen.fmt_prog(v["prog"]))
    if "matched" in v:
        m = v["matched"]
        evs = v["events"]
        for i in range(max(0, m - 16), min(len(evs), m + 3)):
            out.append(("  ok  " if i < m else "  ??  ") + fmt_ev(evs[i]))
        out.append("  model state before the unmatched event: " + v.get("spec_state", "")[:1500])
    for k in ("errors", "stderr", "detail"):
        if k in v:
            out.append(f"  {k}: " + json.dumps(v[k])[:1500])
    return "\n".join(out)


def signature(fam, d):
    ev = d["first_unmatched"]
    if ev is None:
        return f"{fam}/trace/accepted?"
    prev = "start"
    for j in range(d["matched"] - 1, -1, -1):
        if d["events"][j].get("e") == "ret":
            prev = d["events"][j]["k"]
            break
    if ev["e"] == "ret":
        return f"{fam}/trace/ret:{ev['k']}:r={ev['r']}/after:{prev}"
    if ev["e"] == "end":
        pending = sorted({e["k"] for i, e in enumerate(d["events"][:d["matched"]]) if e.get("e") == "call"
                          and not any(x.get("e") == "ret" and x["t"] == e["t"] and x["pc"] == e["pc"] for x in d["events"][i:d["matched"]])})
        return f"{fam}/trace/end:{ev['v']}/pending:{'+'.join(pending) or '-'}"
    return f"{fam}/trace/{ev['e']}/after:{prev}"


def pipeline(fam, progs, outdir, module, cap=6000, pb=None, workers=6, max_diag=5):
    t0 = time.time()
    meta, t_enum = vlib.run_wrap_enum(progs, outdir, cap=cap, pb=pb)
    by_id = {p["id"]: p for p in progs}
    problems = []
    for m in meta:
        if m.get("crashed"):
            problems.append({"kind": "harness-crash", "prog": by_id[m["prog"]], "stderr": m["stderr"], "sig": f"{fam}/harness-crash"})
        if m.get("nondet"):
            problems.append({"kind": "nondeterminism", "prog": by_id[m["prog"]], "detail": m["nondet"],
                             "sig": f"{fam}/nondeterministic-offered-list"})
    reached, leaves, tres = vlib.validate_trie(outdir, workers=workers, module=module)
    if not tres["ok"]:
        problems.append({"kind": "tlc-error", "where": module, "errors": tres["errors"][:5], "sig": f"{fam}/tlc-error/trace"})
    # deviations that the model admits only under a flag (an execution explained without any flag is clean)
    flagged = {}
    for leaf, names in tres.get("leaf_violations", {}).items():
        for nm in names:
            flagged.setdefault(nm, []).append(leaf)
    if flagged:
        nodes, parent = vlib.load_trie(outdir)
        for nm, lvs in flagged.items():
            leaf = min(lvs)
            path = vlib.path_to(nodes, parent, leaf)
            pid = nodes[path[0]]["ev"]["p"]
            evs = [nodes[n]["ev"] for n in path]
            problems.append({"kind": "contract-deviation", "prog": by_id[pid], "count": len(lvs), "events": evs, "matched": len(evs),
                             "spec_state": "(whole execution explained, using the flagged deviation)", "sig": f"{fam}/deviation/{nm}"})
    missing = sorted(leaves - reached)
    if missing:
        nodes, parent = vlib.load_trie(outdir)
        seen = set()
        for leaf in missing:
            path = vlib.path_to(nodes, parent, leaf)
            pid = nodes[path[0]]["ev"]["p"]
            if pid in seen or len(seen) >= max_diag:
                seen.add(pid)
                continue
            seen.add(pid)
            d = vlib.diagnose_leaf(outdir, nodes, parent, leaf, str(leaf), module=module)
            problems.append({"kind": "trace-rejected", "prog": by_id[pid], "leaf": leaf, "matched": d["matched"],
                             "first_unmatched": d["first_unmatched"], "events": d["events"], "spec_state": d["spec_state"],
                             "sig": signature(fam, d)})
    summary = {"family": fam, "programs": len(progs), "executions": sum(m.get("execs", 0) for m in meta),
               "trie_nodes": tres.get("nodes", 0), "leaves": len(leaves), "leaves_reached": len(leaves & reached),
               "trace_states": tres["states"], "trace_transitions": tres["transitions"],
               "capped": sum(1 for m in meta if m.get("capped")), "t_enum": round(t_enum, 1),
               "t_trace": round(tres["wall"], 1), "wall": round(time.time() - t0, 1)}
    return {"summary": summary, "problems": problems}


def cached(fam, progs, tier, module, cap, pb):
    import checks
    chunk = checks.CHUNK if tier == "quick" else checks.CHUNK // 4
    if len(progs) > chunk:
        parts = []
        skipped = 0
        for i in range(0, len(progs), chunk):
            if parts and checks.DEADLINE[0] is not None and time.time() > checks.DEADLINE[0]:
                skipped += len(progs[i:i + chunk])
                continue
            parts.append(cached(fam, progs[i:i + chunk], tier, module, cap, pb))
        r = checks.merge_results(fam, parts)
        if skipped:
            r["summary"]["programs_skipped_time_box"] = skipped
        return r
    return cached1(fam, progs, tier, module, cap, pb)


def cached1(fam, progs, tier, module, cap, pb):
    key = hashlib.sha256(json.dumps([vlib.file_hash(vlib.WBIN), vlib.spec_hash(), fam, tier, module, cap, pb, progs],
                                    sort_keys=True).encode()).hexdigest()[:24]
    cdir = os.path.join(vlib.WORK, "cache")
    os.makedirs(cdir, exist_ok=True)
    cfile = os.path.join(cdir, "w" + key + ".json")
    if os.path.exists(cfile) and not os.environ.get("VERIF_NOCACHE"):
        try:
            return json.load(open(cfile))
        except Exception:
            pass
    out = os.path.join(vlib.WORK, f"wrap-{fam}-{tier}" + (f"-{progs[0]['id']}" if tier != "quick" and progs else ""))
    r = pipeline(fam, progs, out, module, cap=cap, pb=pb)
    import checks
    r["sample"] = {"family": fam, "program": progs[-1] if progs else None, "trace": checks.sample_trace(out)}
    with open(cfile + ".tmp", "w") as f:
        json.dump(r, f)
    os.replace(cfile + ".tmp", cfile)
    return r


C19_STAGES = [("tk_corpus", 0, 0), ("tk_mpsc", 24, 250), ("tk_oneshot", 16, 120), ("tk_notify", 20, 200),
              ("tk_sem", 20, 200), ("tk_mutex", 12, 120), ("tk_watch", 20, 200), ("tk_rwlock", 16, 150), ("tk_cancel", 16, 150),
              ("tk_oncecell", 20, 200)]
C19_ASSUME = [
    "reference models (spec/Tokio.tla): mpsc bounded/unbounded incl. blocking and try variants, close, drops, capacity(); "
    "oneshot; Notify (notify_one / notify_waiters / notified().await); Semaphore (acquire_many_owned, try, add_permits, close, "
    "available_permits) and Mutex (lock_owned / try_lock_owned) as FIFO queues",
    "each operation takes effect atomically between its logged call and return; where tokio's documentation leaves a "
    "result open the model admits every documented answer",
    "watch (send, borrow, borrow_and_update, changed, has_changed, drops; receivers cloned before the start) and RwLock "
    "(read / write / try variants / downgrade over a protected value; a failed try leaves nothing, rw_get/rw_set act only under a guard)",
    "cancellation: abort of a future task pending in notified() / acquire / lock (it owns no channel handles): the request leaves "
    "the queue, permits already handed over go back, a notification received through notify_one is passed on",
    "not modelled: broadcast, OnceCell, time, send_modify / wait_for / subscribe of watch, select!-style cancellation inside a task; "
    "task spawning and JoinHandle are covered on the underlying layer by C17",
]


def finish(pid, tier, t0, stages_summ, problems, assume, module, extra=None, samples=None):
    import checks
    known = vlib.load_known()
    rdir = os.path.join(vlib.WORK, "replays")
    os.makedirs(rdir, exist_ok=True)
    violations = 0
    known_hit = []
    seen = set()
    for pr in problems:
        k = checks.match_known(pid, pr["sig"], known)
        if k:
            if k["sig"] not in known_hit:
                known_hit.append(k["sig"])
                print(f"KNOWN-FINDING: property={pid} {k['sig']} -- {k['what']}")
            continue
        if pr["sig"] in seen:
            continue
        seen.add(pr["sig"])
        violations += 1
        rp = os.path.join(rdir, f"{pid}-{violations}.json")
        with open(rp, "w") as f:
            json.dump({"property": pid, "problem": pr, "wrapper": True}, f, indent=1)
        print(fmt_problem(pr), file=sys.stderr)
        print(f"VIOLATION property={pid} replay={rp}")
    tot = lambda k: int(sum(s.get(k, 0) for s in stages_summ))
    cov = {"states": tot("trace_states"), "transitions": tot("trace_transitions"),
           "traces_validated_against_impl": tot("leaves_reached"), "programs": tot("programs"),
           "executions_enumerated": tot("executions"), "trie_nodes": tot("trie_nodes"), "leaves": tot("leaves"),
           "exhaustive": tot("capped") == 0, "programs_capped": tot("capped"), "families": stages_summ,
           "known_findings_hit": known_hit, "checker_cmd": f"tlc -config {module}.cfg {module}.tla",
           "samples": [x for x in (samples or []) if x and x.get("trace")][:3] or [{"note": "no execution recorded"}]}
    if extra:
        cov.update(extra)
    vlib.write_evidence(pid, tier, "model_checking", cov, assume, time.time() - t0, violations)
    log(f"{pid} {tier}: {violations} violation(s), {len(known_hit)} known finding(s), "
        f"{cov['traces_validated_against_impl']} traces validated, {cov['states']} states, {time.time()-t0:.0f}s")
    return 1 if violations else 0


def run_c19(tier):
    t0 = time.time()
    vlib.build_wrap()
    import checks as _checks
    _checks.DEADLINE[0] = None if tier == "quick" else time.time() + float(os.environ.get("VERIF_THOROUGH_BUDGET_S", "600"))
    cap = 3000 if tier == "quick" else 10000
    summ = []
    problems = []
    from concurrent.futures import ThreadPoolExecutor

    def stage(st):
        fam, q, t = st
        progs = wrapgen.family(fam, q if tier == "quick" else t, vlib.seed())
        return cached(fam, progs, tier, "TraceTokio", cap, None)
    with ThreadPoolExecutor(max_workers=int(os.environ.get("VERIF_STAGE_JOBS", "4"))) as ex:
        results = list(ex.map(stage, C19_STAGES))
    for r in results:
        summ.append(r["summary"])
        problems += r["problems"]
    return finish("C19", tier, t0, summ, problems, C19_ASSUME, "TraceTokio", samples=[r.get("sample") for r in results])


C20_STAGES = [("pl_corpus", 0, 0), ("pl_rw", 30, 300), ("pl_dm", 24, 250), ("pl_mx", 16, 150)]
C20_ASSUME = [
    "reference models (spec/Locks.tla): lock_api RwLock contract (shared / upgradable / exclusive, upgrade, try_upgrade, downgrade, "
    "downgrade_upgradable, downgrade_to_upgradable, try variants), Mutex, DashMap as an atomic plain map (insert/get/remove/"
    "contains_key/len/alter/clear, values copied out: no guard is held across operations)",
    "the parking_lot replacement is driven through the raw lock_api traits (one call per operation); a value protected by the lock "
    "makes overtaking visible",
    "try variants may fail while another task's operation on the same lock is in progress (lock_api leaves that open)",
    "deterministic collections: the same operation history is applied in two separate processes (and to two instances per process); "
    "results and contents are compared with a plain map model, iteration orders across processes",
    "rand / lazy_static replacements: every recorded execution under the random scheduler is replayed from its schedule string "
    "and the drawn values compared; the lazy static is initialised exactly once per execution",
]


def collections_probe(tier):
    """deterministic HashMap / HashSet: results equal a plain map's; iteration order identical across processes."""
    import random
    import subprocess
    rng = random.Random(f"collections:{vlib.seed()}")
    nhist = 12 if tier == "quick" else 200
    problems = []
    rep = []
    d = vlib.fresh_dir(os.path.join(vlib.WORK, f"collections-{tier}"))
    for h in range(nhist):
        ops = []
        model, mset, want = {}, set(), []
        for _ in range(rng.randint(5, 120)):
            o = rng.choice(["ins", "ins", "ins", "rem", "get", "len", "sins", "sins", "srem", "shas"])
            k, v = rng.randrange(48), rng.randrange(100)
            ops.append({"op": o, "k": k, "v": v})
            if o == "ins":
                want.append(model.get(k, -1)); model[k] = v
            elif o == "rem":
                want.append(model.pop(k, -1))
            elif o == "get":
                want.append(model.get(k, -1))
            elif o == "len":
                want.append(len(model))
            elif o == "sins":
                want.append(0 if k in mset else 1); mset.add(k)
            elif o == "srem":
                want.append(1 if k in mset else 0); mset.discard(k)
            else:
                want.append(1 if k in mset else 0)
        hp = os.path.join(d, f"h{h}.ndjson")
        with open(hp, "w") as f:
            f.write("\n".join(json.dumps(o) for o in ops) + "\n")
        outs = []
        for run in range(2):
            env = dict(os.environ, VERIF_PROBE_RUN=str(run))
            r = subprocess.run([vlib.WBIN, "iter", "--history", hp], stdout=subprocess.PIPE, stderr=subprocess.PIPE, text=True, env=env)
            if r.returncode != 0:
                problems.append({"kind": "harness-crash", "stderr": r.stderr[-800:], "sig": "collections/probe-crash"})
                break
            outs.append(json.loads(r.stdout))
        if len(outs) < 2:
            continue
        for inst in outs[0]["instances"]:
            if inst["results"] != want:
                problems.append({"kind": "collections", "detail": {"history": hp, "instance": inst["instance"]}, "sig": "collections/results-differ-from-plain-map"})
            if sorted(map(tuple, inst["map_order"])) != sorted(model.items()) or sorted(inst["set_order"]) != sorted(mset):
                problems.append({"kind": "collections", "detail": {"history": hp, "instance": inst["instance"]}, "sig": "collections/contents-differ-from-plain-map"})
        if outs[0] != outs[1]:
            problems.append({"kind": "collections", "detail": {"history": hp, "first": outs[0]["instances"][0]["map_order"][:6],
                                                                "second": outs[1]["instances"][0]["map_order"][:6]},
                             "sig": "collections/iteration-order-differs-across-processes"})
        rep.append({"ops": len(ops), "entries": len(model)})
    return problems, {"histories": len(rep), "max_ops": max([r["ops"] for r in rep] or [0])}


def rand_probe(tier):
    import subprocess
    iters = 40 if tier == "quick" else 1500
    r = subprocess.run([vlib.WBIN, "randcheck", "--iters", str(iters), "--seed", str(vlib.seed())], stdout=subprocess.PIPE,
                       stderr=subprocess.PIPE, text=True)
    if r.returncode != 0:
        return [{"kind": "harness-crash", "stderr": r.stderr[-800:], "sig": "rand/probe-crash"}], {}
    d = json.loads(r.stdout.strip().splitlines()[-1])
    problems = []
    if d["replay_mismatch"]:
        problems.append({"kind": "rand", "detail": d, "sig": "rand/replay-differs"})
    if d["lazy_init_not_once"]:
        problems.append({"kind": "rand", "detail": d, "sig": "lazy_static/not-initialised-once-per-execution"})
    if d["distinct_lines"] < 10 or d["execs"] != iters:
        problems.append({"kind": "rand", "detail": d, "sig": "rand/probe-vacuous"})
    return problems, {k: d[k] for k in ("execs", "replay_mismatch", "lazy_init_not_once", "distinct_lines")}


def run_c20(tier):
    t0 = time.time()
    vlib.build_wrap()
    import checks as _checks
    _checks.DEADLINE[0] = None if tier == "quick" else time.time() + float(os.environ.get("VERIF_THOROUGH_BUDGET_S", "600"))
    cap = 3000 if tier == "quick" else 10000
    from concurrent.futures import ThreadPoolExecutor

    def stage(st):
        fam, q, t = st
        progs = wrapgen.family(fam, q if tier == "quick" else t, vlib.seed())
        return cached(fam, progs, tier, "TraceLocks", cap, None)
    with ThreadPoolExecutor(max_workers=int(os.environ.get("VERIF_STAGE_JOBS", "4"))) as ex:
        results = list(ex.map(stage, C20_STAGES))
    summ, problems = [], []
    for r in results:
        summ.append(r["summary"])
        problems += r["problems"]
    cp, crep = collections_probe(tier)
    rp, rrep = rand_probe(tier)
    problems += cp + rp
    return finish("C20", tier, t0, summ, problems, C20_ASSUME, "TraceLocks", samples=[r.get("sample") for r in results],
                  extra={"collections_probe": crep, "rand_lazy_static_probe": rrep})


def dev_family(fam, count, cap, module="TraceTokio", show=2, only=None):
    vlib.build_wrap()
    progs = wrapgen.family(fam, count, vlib.seed())
    if only is not None:
        progs = [p for p in progs if p["id"] == only]
    r = pipeline(fam, progs, os.path.join(vlib.WORK, "wfam-" + fam), module, cap=cap)
    print(json.dumps(r["summary"]))
    sigs = {}
    for v in r["problems"]:
        sigs[v["sig"]] = sigs.get(v["sig"], 0) + 1
    print("problem signatures:", json.dumps(sigs, indent=1))
    for v in r["problems"][:show]:
        print(fmt_problem(v))
    return 1 if r["problems"] else 0
