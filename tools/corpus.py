"""Hand-picked program shapes (fixed corpus, DESIGN.md section 6)."""
from gen import op, prog


def get(name):
    return CORPUS.get(name, lambda: [])()


def deadlock():
    P = []
    # AB-BA lock cycle
    P.append(prog(100, "corpus_deadlock", [
        [op("spawn", v=1), op("lock", o=0, w=0), op("lock", o=1, w=1), op("unlock", w=1), op("unlock", w=0), op("join", v=1)],
        [op("lock", o=1, w=0), op("lock", o=0, w=1), op("unlock", w=1), op("unlock", w=0)]], nmutex=2))
    # lost notification
    P.append(prog(101, "corpus_deadlock", [
        [op("spawn", v=1), op("lock", o=0, w=0), op("cv_wait", o=0, v=0, w=0), op("unlock", w=0), op("join", v=1)],
        [op("notify_one", o=0)]], nmutex=1, ncv=1))
    # receiver on an empty channel whose sender never sends
    P.append(prog(102, "corpus_deadlock", [
        [op("spawn", v=1), op("recv", o=0), op("join", v=1)],
        [op("yield")]], chans=[-1]))
    # only parked threads remain
    P.append(prog(103, "corpus_deadlock", [
        [op("spawn", v=1), op("park"), op("join", v=1)],
        [op("park"), op("unpark", v=0)]]))
    # join cycle through a mutex held by the joiner
    P.append(prog(104, "corpus_deadlock", [
        [op("lock", o=0, w=0), op("spawn", v=1), op("join", v=1), op("unlock", w=0)],
        [op("lock", o=0, w=0), op("unlock", w=0)]], nmutex=1))
    # three-way cycle
    P.append(prog(105, "corpus_deadlock", [
        [op("spawn", v=1), op("spawn", v=2), op("lock", o=0, w=0), op("lock", o=1, w=1), op("unlock", w=1), op("unlock", w=0)],
        [op("lock", o=1, w=0), op("lock", o=2, w=1), op("unlock", w=1), op("unlock", w=0)],
        [op("lock", o=2, w=0), op("lock", o=0, w=1), op("unlock", w=1), op("unlock", w=0)]], nmutex=3))
    # barrier that is never completed
    P.append(prog(106, "corpus_deadlock", [
        [op("spawn", v=1), op("barrier_wait", o=0), op("join", v=1)],
        [op("load", o=0)]], barriers=[3], atomics=[0]))
    # a real deadlock of the attached tasks while a detached future is still pending / still runnable
    P.append(prog(108, "corpus_deadlock", [
        [op("spawn_future", v=1), op("detach", v=1), op("bo_begin"), op("await_flag", o=1), op("bo_end")],
        [op("await_flag", o=0)]], nflags=2, kinds=["thread", "future"]))
    P.append(prog(109, "corpus_deadlock", [
        [op("spawn_future", v=1), op("spawn_future", v=2), op("detach", v=1), op("bo_begin"), op("await_join", v=2), op("bo_end")],
        [op("ayield"), op("load", o=0), op("await_flag", o=0)],
        [op("await_flag", o=1), op("store", o=0, v=1)]], nflags=2, atomics=[0], kinds=["thread", "future", "future"]))
    # detached tasks never keep the execution alive nor make it a deadlock
    P.append(prog(110, "corpus_deadlock", [
        [op("spawn_future", v=1), op("spawn_future", v=2), op("detach", v=1), op("detach", v=2), op("yield"), op("load", o=0)],
        [op("await_flag", o=0), op("store", o=0, v=1)],
        [op("ayield"), op("store", o=0, v=2), op("ayield"), op("store", o=0, v=3)]], nflags=1, atomics=[0], kinds=["thread", "future", "future"]))
    # a task panics while another one is blocked: the run ends with that panic
    P.append(prog(111, "corpus_deadlock", [
        [op("spawn", v=1), op("lock", o=0, w=0), op("yield"), op("unlock", w=0), op("join", v=1)],
        [op("load", o=0), op("panic", v=7)]], nmutex=1, atomics=[0]))
    # semaphore without enough permits
    P.append(prog(107, "corpus_deadlock", [
        [op("spawn", v=1), op("acquire", o=0, v=2), op("join", v=1)],
        [op("release", o=0, v=1)]], sems=[(0, 1)]))
    return P


def locks():
    P = []
    # diagnosed re-entrant lock
    P.append(prog(120, "corpus_locks", [[op("lock", o=0, w=0), op("lock", o=0, w=1)]], nmutex=1))
    # re-entrant try_lock reports WouldBlock and leaves the lock held once
    P.append(prog(121, "corpus_locks", [
        [op("spawn", v=1), op("lock", o=0, w=0), op("try_lock", o=0, w=1), op("unlock_if", w=1), op("unlock", w=0), op("join", v=1)],
        [op("lock", o=0, w=0), op("ginc", w=0), op("unlock", w=0)]], nmutex=1))
    # diagnosed re-entrant read under write / write under read
    P.append(prog(122, "corpus_locks", [[op("write", o=0, w=0), op("read", o=0, w=1)]], nrw=1))
    P.append(prog(123, "corpus_locks", [[op("read", o=0, w=0), op("write", o=0, w=1)]], nrw=1))
    # two readers and one writer incrementing the protected cell
    P.append(prog(124, "corpus_locks", [
        [op("spawn", v=1), op("spawn", v=2), op("write", o=0, w=0), op("ginc", w=0), op("unlock", w=0), op("join", v=1), op("join", v=2)],
        [op("read", o=0, w=0), op("gget", w=0), op("unlock", w=0)],
        [op("read", o=0, w=0), op("gget", w=0), op("unlock", w=0), op("write", o=0, w=0), op("ginc", w=0), op("unlock", w=0)]], nrw=1))
    # try_write against a reader, try_read against a writer
    P.append(prog(125, "corpus_locks", [
        [op("spawn", v=1), op("read", o=0, w=0), op("yield"), op("unlock", w=0), op("join", v=1)],
        [op("try_write", o=0, w=0), op("unlock_if", w=0), op("try_read", o=0, w=1), op("unlock_if", w=1)]], nrw=1))
    # re-entrant try_read by a current reader: WouldBlock, and nothing is consumed (a later writer gets in)
    P.append(prog(127, "corpus_locks", [
        [op("read", o=0, w=0), op("try_read", o=0, w=1), op("unlock_if", w=1), op("unlock", w=0),
         op("write", o=0, w=0), op("ginc", w=0), op("unlock", w=0)]], nrw=1))
    P.append(prog(128, "corpus_locks", [
        [op("spawn", v=1), op("read", o=0, w=0), op("try_read", o=0, w=1), op("unlock_if", w=1), op("unlock", w=0), op("join", v=1)],
        [op("write", o=0, w=0), op("ginc", w=0), op("unlock", w=0)]], nrw=1))
    # counter: three increments under the lock are never lost
    P.append(prog(126, "corpus_locks", [
        [op("spawn", v=1), op("spawn", v=2), op("lock", o=0, w=0), op("ginc", w=0), op("unlock", w=0), op("join", v=1), op("join", v=2), op("lock", o=0, w=0), op("gget", w=0), op("unlock", w=0)],
        [op("lock", o=0, w=0), op("ginc", w=0), op("unlock", w=0)],
        [op("lock", o=0, w=0), op("ginc", w=0), op("unlock", w=0)]], nmutex=1))
    return P


def sync():
    P = []
    # two waiters, two notify_one (racing), predicate in an atomic
    P.append(prog(140, "corpus_sync", [
        [op("spawn", v=1), op("spawn", v=2), op("notify_one", o=0), op("notify_one", o=0), op("join", v=1), op("join", v=2)],
        [op("lock", o=0, w=0), op("cv_wait", o=0, v=0, w=0), op("unlock", w=0)],
        [op("lock", o=0, w=0), op("cv_wait", o=0, v=0, w=0), op("unlock", w=0)]], nmutex=1, ncv=1))
    # notify_all then notify_one
    P.append(prog(141, "corpus_sync", [
        [op("spawn", v=1), op("spawn", v=2), op("notify_all", o=0), op("notify_one", o=0)],
        [op("lock", o=0, w=0), op("cv_wait", o=0, v=0, w=0), op("unlock", w=0)],
        [op("lock", o=0, w=0), op("cv_wait", o=0, v=0, w=0), op("cv_wait", o=0, v=0, w=0), op("unlock", w=0)]], nmutex=1, ncv=1))
    # barrier of two reused for two generations by three arrivals
    P.append(prog(142, "corpus_sync", [
        [op("spawn", v=1), op("spawn", v=2), op("barrier_wait", o=0), op("join", v=1), op("join", v=2)],
        [op("barrier_wait", o=0), op("barrier_wait", o=0)],
        [op("barrier_wait", o=0)]], barriers=[2]))
    # racing call_once with a yielding neighbour
    P.append(prog(143, "corpus_sync", [
        [op("spawn", v=1), op("spawn", v=2), op("call_once", o=0, v=1, w=0), op("load", o=0), op("join", v=1), op("join", v=2)],
        [op("call_once", o=0, v=2, w=0), op("load", o=0)],
        [op("call_once", o=0, v=3, w=0), op("load", o=0)]], nonce=1, atomics=[0]))
    # double unpark before park, then a second park
    P.append(prog(144, "corpus_sync", [
        [op("spawn", v=1), op("unpark", v=1), op("unpark", v=1), op("join", v=1)],
        [op("park"), op("park")]]))
    return P


def sync_big():
    """Larger shapes, sampled under the built-in schedulers (their trees are too big to enumerate quickly)."""
    P = []
    w = [op("lock", o=0, w=0), op("cv_wait", o=0, v=0, w=0), op("unlock", w=0)]
    # three waiters, two notify_one, then a clean-up broadcast (the scenario of the source comment in condvar.rs)
    P.append(prog(150, "corpus_sync_big", [
        [op("spawn", v=1), op("spawn", v=2), op("notify_one", o=0), op("spawn", v=3), op("notify_one", o=0),
         op("load", o=0), op("notify_all", o=0), op("join", v=1), op("join", v=2), op("join", v=3)],
        list(w) + [op("fadd", o=0, v=1)], list(w) + [op("fadd", o=0, v=1)], list(w) + [op("fadd", o=0, v=1)]], nmutex=1, ncv=1, atomics=[0]))
    # a late waiter and racing notifiers
    P.append(prog(151, "corpus_sync_big", [
        [op("spawn", v=1), op("spawn", v=2), op("spawn", v=3), op("yield"), op("notify_one", o=0), op("join", v=3),
         op("notify_all", o=0), op("join", v=1), op("join", v=2)],
        list(w), list(w), [op("notify_one", o=0), op("lock", o=0, w=0), op("unlock", w=0)]], nmutex=1, ncv=1))
    # unpark while the target is blocked in join / recv / barrier, then it parks
    P.append(prog(152, "corpus_sync_big", [
        [op("spawn", v=1), op("join", v=1), op("park"), op("load", o=0)],
        [op("unpark", v=0), op("store", o=0, v=1)]], atomics=[0]))
    P.append(prog(153, "corpus_sync_big", [
        [op("clone_tx", o=0, v=0, w=1), op("spawn", v=1), op("recv", o=0), op("park"), op("join", v=1)],
        [op("unpark", v=0), op("send", o=0, v=5, w=1)]], chans=[-1]))
    P.append(prog(154, "corpus_sync_big", [
        [op("spawn", v=1), op("spawn", v=2), op("barrier_wait", o=0), op("park"), op("join", v=1), op("join", v=2)],
        [op("unpark", v=0), op("barrier_wait", o=0)], [op("yield"), op("unpark", v=0)]], barriers=[2]))
    return P


def sync_pb():
    """Four-task scenarios explored systematically with a preemption bound."""
    P = []
    w = [op("lock", o=0, w=0), op("cv_wait", o=0, v=0, w=0), op("unlock", w=0)]
    # two waiters, notify_one, a late third waiter, a second notify_one: exactly two waiters may return
    P.append(prog(155, "corpus_sync_pb", [[op("spawn", v=1), op("spawn", v=2), op("notify_one", o=0), op("spawn", v=3), op("notify_one", o=0)],
                                          list(w), list(w), list(w)], nmutex=1, ncv=1))
    # three arrivals at a barrier of two, reused
    P.append(prog(156, "corpus_sync_pb", [[op("spawn", v=1), op("spawn", v=2), op("spawn", v=3), op("barrier_wait", o=0)],
                                          [op("barrier_wait", o=0)], [op("barrier_wait", o=0)], [op("barrier_wait", o=0), op("load", o=0)]],
                  barriers=[2], atomics=[0]))
    # three racing call_once with different initialisers
    P.append(prog(157, "corpus_sync_pb", [[op("spawn", v=1), op("spawn", v=2), op("spawn", v=3), op("load", o=0)],
                                          [op("call_once", o=0, v=1, w=0), op("load", o=0)], [op("call_once", o=0, v=2, w=0), op("load", o=0)],
                                          [op("call_once", o=0, v=3, w=0), op("load", o=0)]], nonce=1, atomics=[0]))
    return P


def mpsc():
    P = []
    # rendezvous hand-off with try variants
    P.append(prog(160, "corpus_mpsc", [
        [op("clone_tx", o=0, v=0, w=1), op("spawn", v=1), op("try_recv", o=0), op("recv", o=0), op("join", v=1)],
        [op("try_send", o=0, v=7, w=1), op("send", o=0, v=8, w=1)]], chans=[0]))
    # two senders blocked on a full channel of capacity 1
    P.append(prog(161, "corpus_mpsc", [
        [op("clone_tx", o=0, v=0, w=1), op("clone_tx", o=0, v=0, w=2), op("spawn", v=1), op("spawn", v=2),
         op("recv", o=0), op("recv", o=0), op("recv", o=0), op("recv", o=0)],
        [op("send", o=0, v=10, w=1), op("send", o=0, v=11, w=1)],
        [op("send", o=0, v=20, w=2), op("send", o=0, v=21, w=2)]], chans=[1]))
    # drain before disconnect
    P.append(prog(162, "corpus_mpsc", [
        [op("clone_tx", o=0, v=0, w=1), op("spawn", v=1), op("drop_tx", o=0, w=0), op("join", v=1),
         op("recv", o=0), op("recv", o=0), op("recv", o=0)],
        [op("send", o=0, v=10, w=1), op("send", o=0, v=11, w=1), op("drop_tx", o=0, w=1)]], chans=[-1]))
    # the owning iterator blocks like recv and ends only at disconnection
    P.append(prog(164, "corpus_mpsc", [
        [op("clone_tx", o=0, v=0, w=1), op("spawn", v=1), op("drop_tx", o=0, w=0), op("recv", o=0, w=1), op("recv", o=0, w=1), op("recv", o=0, w=1), op("join", v=1)],
        [op("yield"), op("send", o=0, v=10, w=1), op("send", o=0, v=11, w=1), op("drop_tx", o=0, w=1)]], chans=[0]))
    # send after the receiver is gone
    P.append(prog(163, "corpus_mpsc", [
        [op("clone_tx", o=0, v=0, w=1), op("spawn", v=1), op("drop_rx", o=0), op("join", v=1)],
        [op("send", o=0, v=10, w=1), op("send", o=0, v=11, w=1)]], chans=[2]))
    return P


def pct_bugs():
    """Programs with a bug of known depth d (number of ordering constraints): (program, bug, depth)."""
    out = []
    # d = 1: the reader runs before the writer
    out.append((prog(900, "pct_bug", [[op("spawn", v=1), op("spawn", v=2), op("join", v=1), op("join", v=2)],
                                      [op("store", o=0, v=1)], [op("load", o=0)]], atomics=[0]), [[2, 1, 0]], 1))
    # d = 2: the read lands between two writes
    out.append((prog(901, "pct_bug", [[op("spawn", v=1), op("spawn", v=2), op("join", v=1), op("join", v=2)],
                                      [op("store", o=0, v=1), op("store", o=0, v=2)], [op("load", o=0)]], atomics=[0]), [[2, 1, 1]], 2))
    # d = 2 with more steps around
    out.append((prog(902, "pct_bug", [[op("spawn", v=1), op("spawn", v=2), op("join", v=1), op("join", v=2)],
                                      [op("load", o=1), op("store", o=0, v=1), op("store", o=0, v=2), op("load", o=1)],
                                      [op("load", o=1), op("load", o=0), op("store", o=1, v=1)]], atomics=[0, 0]), [[2, 2, 1]], 2))
    # d = 4: two reads interleaved with three writes
    out.append((prog(903, "pct_bug", [[op("spawn", v=1), op("spawn", v=2), op("join", v=1), op("join", v=2)],
                                      [op("store", o=0, v=1), op("store", o=0, v=2), op("store", o=0, v=3)],
                                      [op("load", o=0), op("load", o=0)]], atomics=[0]), [[2, 1, 1], [2, 2, 2]], 4))
    return out


def sem():
    """BatchSemaphore shapes: grant-then-close, close-then-release, cancellation of the head of a fair queue,
    batches larger than one, unfair barging."""
    P = []
    for fair in (1, 0):
        b = 200 if fair else 220
        # a queued waiter is granted by release, then the semaphore is closed before the waiter runs again
        P.append(prog(b + 0, "corpus_sem", [
            [op("spawn", v=1), op("release", o=0, v=1), op("close", o=0), op("avail", o=0), op("join", v=1)],
            [op("acquire", o=0, v=1), op("avail", o=0)]], sems=[(0, fair)]))
        # close races with a blocked acquire and a release
        P.append(prog(b + 1, "corpus_sem", [
            [op("spawn", v=1), op("spawn", v=2), op("close", o=0), op("join", v=1), op("join", v=2), op("avail", o=0)],
            [op("acquire", o=0, v=2), op("release", o=0, v=2)],
            [op("release", o=0, v=1), op("try_acquire", o=0, v=1)]], sems=[(1, fair)]))
        # head of the queue wants 2 (only 1 available), a follower wants 1; the head is cancelled
        P.append(prog(b + 2, "corpus_sem", [
            [op("spawn_future", v=1), op("spawn_future", v=2), op("yield"), op("abort", v=1), op("bo_begin"), op("await_join", v=2), op("bo_end"), op("avail", o=0)],
            [op("acquire", o=0, v=2), op("store", o=0, v=1)],
            [op("acquire", o=0, v=1), op("store", o=0, v=2)]], sems=[(1, fair)], atomics=[0], kinds=["thread", "future", "future"]))
        # cancelled waiter in the middle / a granted waiter that is cancelled before it is polled again
        P.append(prog(b + 3, "corpus_sem", [
            [op("spawn_future", v=1), op("spawn_future", v=2), op("release", o=0, v=1), op("abort", v=1), op("bo_begin"), op("await_join", v=2), op("bo_end"), op("avail", o=0)],
            [op("acquire", o=0, v=1), op("ayield"), op("release", o=0, v=1)],
            [op("acquire", o=0, v=1), op("store", o=0, v=2)]], sems=[(0, fair)], atomics=[0], kinds=["thread", "future", "future"]))
        # batches: 3 released in two steps to waiters wanting 2 and 1
        P.append(prog(b + 4, "corpus_sem", [
            [op("spawn", v=1), op("spawn", v=2), op("release", o=0, v=1), op("release", o=0, v=2), op("join", v=1), op("join", v=2), op("avail", o=0)],
            [op("acquire", o=0, v=2), op("avail", o=0)],
            [op("acquire", o=0, v=1), op("try_acquire", o=0, v=1)]], sems=[(0, fair)]))
        # who queues first is decided after the other's preceding operation became visible
        P.append(prog(b + 5, "corpus_sem", [
            [op("spawn", v=1), op("spawn", v=2), op("release", o=0, v=1), op("join", v=1), op("join", v=2)],
            [op("store", o=0, v=1), op("acquire", o=0, v=1), op("fadd", o=1, v=1), op("release", o=0, v=1)],
            [op("load", o=0), op("acquire", o=0, v=1), op("fadd", o=1, v=2), op("release", o=0, v=1)]], sems=[(0, fair)], atomics=[0, 0]))
        # ... seen through try_acquire, which fails behind a queued waiter of a fair semaphore even if permits are left
        P.append(prog(b + 6, "corpus_sem", [
            [op("spawn", v=1), op("spawn", v=2), op("join", v=2), op("release", o=0, v=1), op("join", v=1)],
            [op("store", o=0, v=1), op("acquire", o=0, v=2)],
            [op("load", o=0), op("try_acquire", o=0, v=1), op("load", o=0)]], sems=[(1, fair)], atomics=[0]))
    return P


def async_wake():
    """Wakes that arrive while the target is inside a poll: blocked on a channel (TaskState::Blocked), on a
    mutex (sleeping in the inner block_on), running; and wakes through a waker handed out in an earlier poll."""
    P = []
    K3 = ["thread", "future"]
    # the wake arrives while the future is blocked in a std recv inside its poll
    P.append(prog(260, "corpus_async", [
        [op("clone_tx", o=0, v=0, w=1), op("spawn_future", v=1), op("wake_only", o=0), op("send", o=0, v=5, w=1),
         op("bo_begin"), op("await_join", v=1), op("bo_end")],
        [op("reg_flag", o=0), op("recv", o=0), op("suspend"), op("store", o=0, v=1)]],
        chans=[-1], atomics=[0], nflags=1, kinds=K3))
    # ... while it is blocked on a mutex held by main
    P.append(prog(261, "corpus_async", [
        [op("lock", o=0, w=0), op("spawn_future", v=1), op("yield"), op("wake_only", o=0), op("unlock", w=0),
         op("bo_begin"), op("await_join", v=1), op("bo_end")],
        [op("reg_flag", o=0), op("lock", o=0, w=0), op("unlock", w=0), op("suspend"), op("store", o=0, v=1)]],
        nmutex=1, atomics=[0], nflags=1, kinds=K3))
    # ... while it is parked on a barrier inside its poll, woken by another future
    P.append(prog(262, "corpus_async", [
        [op("spawn_future", v=1), op("spawn_future", v=2), op("barrier_wait", o=0), op("bo_begin"), op("await_join", v=1), op("bo_end")],
        [op("reg_flag", o=0), op("barrier_wait", o=0), op("suspend"), op("store", o=0, v=1)],
        [op("wake_only", o=0), op("wake_only", o=0)]],
        barriers=[2], atomics=[0], nflags=1, kinds=["thread", "future", "future"]))
    # a flag future whose wake comes while the task is in a later poll, blocked in recv; then it suspends
    P.append(prog(263, "corpus_async", [
        [op("clone_tx", o=0, v=0, w=1), op("spawn_future", v=1), op("set_flag", o=0), op("wake_only", o=1), op("send", o=0, v=5, w=1),
         op("wake_only", o=1), op("bo_begin"), op("await_join", v=1), op("bo_end")],
        [op("reg_flag", o=1), op("await_flag", o=0), op("recv", o=0), op("suspend")]],
        chans=[-1], nflags=2, kinds=K3))
    # block_on in a thread: the wake arrives while the thread is blocked in recv inside the block_on section
    P.append(prog(264, "corpus_async", [
        [op("clone_tx", o=0, v=0, w=1), op("spawn", v=1), op("bo_begin"), op("reg_flag", o=0), op("recv", o=0), op("suspend"), op("bo_end"), op("join", v=1)],
        [op("wake_only", o=0), op("send", o=0, v=5, w=1), op("wake_only", o=0)]],
        chans=[-1], nflags=1))
    # abort while blocked in a recv inside the poll: takes effect at the next Pending
    P.append(prog(265, "corpus_async", [
        [op("clone_tx", o=0, v=0, w=1), op("spawn_future", v=1), op("abort", v=1), op("send", o=0, v=5, w=1),
         op("bo_begin"), op("await_join", v=1), op("bo_end")],
        [op("recv", o=0), op("store", o=0, v=1), op("suspend"), op("store", o=0, v=2)]],
        chans=[-1], atomics=[0], nflags=1, kinds=K3))
    return P


def tls():
    """Thread-local lifecycles that random programs rarely reach: three keys in one task (destruction in
    initialisation order), destructors reading keys that are alive / already destroyed / never initialised."""
    P = []
    def mk(pid, tasks, touch, yld, **kw):
        pr = prog(pid, "corpus_tls", tasks, **kw)
        pr["tls_touch"] = touch
        pr["tls_yield"] = yld
        return pr
    P.append(mk(170, [[op("tls_set", o=0, v=1), op("tls_set", o=1, v=2), op("tls_set", o=2, v=3)]], [-1, -1, -1], [0, 0, 0]))
    P.append(mk(171, [[op("spawn", v=1), op("tls_set", o=2, v=1), op("tls_set", o=0, v=2), op("tls_get", o=1), op("join", v=1)],
                      [op("tls_set", o=1, v=5), op("tls_set", o=2, v=6), op("tls_set", o=0, v=7), op("load", o=0)]],
                [2, 0, 1], [0, 1, 0], atomics=[0]))
    P.append(mk(172, [[op("spawn", v=1), op("tls_set", o=0, v=1), op("tls_set", o=1, v=2), op("join", v=1), op("tls_get", o=2)],
                      [op("tls_set", o=2, v=5), op("tls_set", o=1, v=6), op("yield"), op("tls_set", o=0, v=7)]],
                [1, 2, 0], [1, 0, 1]))
    # a destructor that touches a key this thread never initialised: it is created during destruction and destroyed in turn
    P.append(mk(173, [[op("spawn", v=1), op("join", v=1)], [op("tls_set", o=0, v=5), op("tls_set", o=2, v=6)]],
                [1, -1, 1], [0, 0, 0]))
    return P


def poison():
    """A Mutex released by a panicking holder (the panic is caught inside the task) is poisoned - and still a mutex."""
    P = []
    # poisoned, then one locker at a time
    P.append(prog(180, "corpus_poison", [
        [op("lock", o=0, w=0), op("punlock", w=0), op("lock", o=0, w=0), op("unlock", w=0), op("try_lock", o=0, w=1), op("unlock_if", w=1)]], nmutex=1))
    # poisoned while another thread is blocked in lock()
    P.append(prog(181, "corpus_poison", [
        [op("lock", o=0, w=0), op("spawn", v=1), op("yield"), op("punlock", w=0), op("join", v=1)],
        [op("lock", o=0, w=0), op("unlock", w=0)]], nmutex=1))
    # two lockers race for the poisoned mutex: it must still exclude
    P.append(prog(182, "corpus_poison", [
        [op("lock", o=0, w=0), op("punlock", w=0), op("spawn", v=1), op("lock", o=0, w=0), op("yield"), op("unlock", w=0), op("join", v=1)],
        [op("lock", o=0, w=0), op("yield"), op("unlock", w=0)]], nmutex=1))
    # RwLock: a panicking writer poisons (a panicking reader does not); every later read / write / try reports it
    P.append(prog(183, "corpus_poison", [
        [op("write", o=0, w=0), op("punlock", w=0), op("read", o=0, w=0), op("unlock", w=0), op("write", o=0, w=0), op("unlock", w=0)]], nrw=1))
    P.append(prog(184, "corpus_poison", [
        [op("read", o=0, w=0), op("punlock", w=0), op("read", o=0, w=0), op("unlock", w=0), op("write", o=0, w=0), op("unlock", w=0)]], nrw=1))
    P.append(prog(185, "corpus_poison", [
        [op("write", o=0, w=0), op("punlock", w=0), op("try_read", o=0, w=0), op("unlock_if", w=0), op("try_write", o=0, w=1), op("unlock_if", w=1)]], nrw=1))
    return P


def isfin():
    """JoinHandle::is_finished is a read of scheduler-visible state (kept apart from the generated families: it has no
    scheduling point of its own, which is an open finding of C02)."""
    P = []
    P.append(prog(190, "corpus_isfin", [
        [op("spawn_future", v=1), op("load", o=0), op("is_finished", v=1), op("bo_begin"), op("await_join", v=1), op("bo_end")],
        [op("store", o=0, v=2)]], atomics=[0], kinds=["thread", "future"]))
    P.append(prog(191, "corpus_isfin", [
        [op("spawn_future", v=1), op("is_finished", v=1), op("yield"), op("is_finished", v=1), op("bo_begin"), op("await_join", v=1), op("bo_end"), op("is_finished", v=1)],
        [op("ayield"), op("store", o=0, v=1)]], atomics=[0], kinds=["thread", "future"]))
    return P


def stop():
    """Executions abandoned by a ContinueAfter step bound while tasks are queued on a semaphore: the execution is torn
    down with the waiters' Acquire futures still alive.  Head of a fair queue wants 2 (1 available), a follower wants 1:
    dropping the head during the teardown must not try to wake the follower (the task list is gone)."""
    P = []
    pid = 280
    for fair in (1, 0):
        for bound in (7, 8, 9, 10, 12):
            P.append(prog(pid, "corpus_stop", [
                [op("spawn", v=1), op("spawn", v=2), op("acquire", o=0, v=2)],
                [op("acquire", o=0, v=1)],
                [op("yield"), op("yield")]], sems=[(1, fair)], maxsteps=-bound))
            pid += 1
    return P


CORPUS = {"corpus_stop": stop, "corpus_isfin": isfin, "corpus_poison": poison, "corpus_tls": tls, "corpus_async": async_wake, "corpus_sem": sem, "corpus_sync_pb": sync_pb, "corpus_sync_big": sync_big, "corpus_deadlock": deadlock, "corpus_locks": locks, "corpus_sync": sync, "corpus_mpsc": mpsc}
