"""Programs over the wrapper crates (C19 tokio replacements, C20 parking_lot / dashmap)."""
import random


def op(k, o=0, v=0):
    return {"k": k, "o": o, "v": v}


def task(kind, ops, tx=(), rx=(), otx=(), orx=(), wtx=(), wrx=()):
    return {"kind": kind, "ops": ops, "tx": list(tx), "rx": list(rx), "otx": list(otx), "orx": list(orx),
            "wtx": list(wtx), "wrx": list(wrx)}


def tprog(pid, fam, tasks, chans=(), nos=0, nnt=0, sems=(), nmx=0, nwt=0, nrwl=0, noc=0):
    for t in tasks:
        t.setdefault("wtx", [])
        t.setdefault("wrx", [])
    return {"id": pid, "fam": fam, "lang": "tokio", "chans": list(chans), "nos": nos, "nnt": nnt, "sems": list(sems),
            "nmx": nmx, "nwt": nwt, "nrwl": nrwl, "noc": noc, "tasks": tasks}


def fmt_prog(p):
    hdr = {k: p[k] for k in ("chans", "nos", "nnt", "sems", "nmx", "nwt", "nrwl", "noc", "nrw", "nmap") if p.get(k)}
    lines = [f"prog {p['id']} [{p['fam']}] objs={hdr}"]
    for i, t in enumerate(p["tasks"]):
        own = {k: t[k] for k in ("tx", "rx", "otx", "orx", "wtx", "wrx") if t.get(k)}
        ops = "; ".join(("?" if o.get("c") else "") + f"{o['k']}({o['o']},{o['v']})" for o in t["ops"])
        lines.append(f"  T{i} [{t.get('kind', 'thread')}{' ' + str(own) if own else ''}]: {ops}")
    return "\n".join(lines)


def gen_mpsc(count, seed, first_id=7000):
    rng = random.Random(f"tk_mpsc:{seed}")
    out = []
    for i in range(count):
        cap = rng.choice([1, 1, 2, -1])
        nsend = rng.randint(1, 2)
        rx_owner = rng.choice([0, 0, nsend + 1])          # main, or a dedicated task
        n = nsend + 1 + (1 if rx_owner else 0)
        kinds = ["thread"] + [rng.choice(["thread", "future"]) for _ in range(n - 1)]
        tasks = [None] * n
        total_sends = 0
        for s in range(1, nsend + 1):
            ops = []
            for _ in range(rng.randint(1, 3)):
                k = rng.choice(["send", "send", "try_send", "bsend" if kinds[s] == "thread" else "send", "cap" if cap >= 0 else "send", "drop_tx"])
                if k == "drop_tx":
                    if ops and rng.random() < 0.5:
                        ops.append(op("drop_tx", 0))
                        break
                    continue
                if k in ("send", "try_send", "bsend"):
                    total_sends += 1
                    ops.append(op(k, 0, 10 * s + len(ops)))
                else:
                    ops.append(op(k, 0))
            tasks[s] = task(kinds[s], ops, tx=[0])
        rops = []
        nrecv = max(1, total_sends + rng.choice([-1, 0, 0, 1]))
        for _ in range(min(nrecv, 4)):
            k = rng.choice(["recv", "recv", "try_recv", "brecv" if kinds[rx_owner] == "thread" else "recv"])
            rops.append(op(k, 0))
        if rng.random() < 0.3:
            rops.insert(rng.randrange(len(rops) + 1), op("close", 0))
        if rng.random() < 0.2:
            rops.append(op("drop_rx", 0))
        if rx_owner == 0:
            main_tx = rng.random() < 0.3
            pre = [op("try_send", 0, 5)] if main_tx else []
            tasks[0] = task("thread", pre + rops, rx=[0], tx=[0] if main_tx else [])
        else:
            tasks[rx_owner] = task(kinds[rx_owner], rops, rx=[0])
            tasks[0] = task("thread", [op("yield")] if rng.random() < 0.5 else [])
        out.append(tprog(first_id + i, "tk_mpsc", tasks, chans=[cap]))
    return out


def gen_simple(fam, count, seed, first_id, alphabet, objs, ntasks=(2, 3), nops=(1, 3)):
    rng = random.Random(f"{fam}:{seed}")
    out = []
    for i in range(count):
        n = rng.randint(*ntasks)
        kinds = ["thread"] + [rng.choice(["thread", "future"]) for _ in range(n - 1)]
        tasks = []
        for t in range(n):
            ops = []
            holding_sem = False
            holding_mx = False
            for _ in range(rng.randint(*nops)):
                k = rng.choice(alphabet)
                if k in ("sm_acq", "sm_try"):
                    if holding_sem:
                        ops.append(op("sm_rel", 0))
                        holding_sem = False
                        continue
                    ops.append(op(k, 0, rng.randint(1, 2)))
                    holding_sem = True      # (possibly: a failed try holds nothing; sm_rel of nothing is a no-op)
                elif k == "sm_rel":
                    if holding_sem:
                        ops.append(op("sm_rel", 0))
                        holding_sem = False
                elif k == "sm_add":
                    ops.append(op("sm_add", 0, rng.randint(1, 2)))
                elif k in ("mx_lock", "mx_try"):
                    if holding_mx:
                        ops.append(op("mx_unlock", 0))
                        holding_mx = False
                        continue
                    ops.append(op(k, 0))
                    holding_mx = True
                elif k == "mx_unlock":
                    if holding_mx:
                        ops.append(op("mx_unlock", 0))
                        holding_mx = False
                else:
                    ops.append(op(k, 0))
            tasks.append(task(kinds[t], ops))
        kw = dict(objs)
        if "sems" in kw:
            kw["sems"] = [rng.randint(0, 2)]
        out.append(tprog(first_id + i, fam, tasks, **kw))
    return out


def gen_oneshot(count, seed, first_id=7300):
    rng = random.Random(f"tk_oneshot:{seed}")
    out = []
    for i in range(count):
        kinds = ["thread", rng.choice(["thread", "future"])]
        sender = rng.choice([0, 1])
        recvr = 1 - sender
        sops = []
        if rng.random() < 0.3:
            sops.append(op("yield"))
        sops.append(op(rng.choice(["os_send", "os_send", "os_send", "os_drop_tx"]), 0, 7))
        rops = []
        for _ in range(rng.randint(0, 2)):
            rops.append(op(rng.choice(["os_try", "os_try", "os_close", "yield"]), 0))
        rops.append(op(rng.choice(["os_recv", "os_recv", "os_recv", "os_drop_rx", "os_try"]), 0))
        tasks = [None, None]
        tasks[sender] = task(kinds[sender], sops, otx=[0])
        tasks[recvr] = task(kinds[recvr], rops, orx=[0])
        out.append(tprog(first_id + i, "tk_oneshot", tasks, nos=1))
    return out


def lprog(pid, fam, tasks, nrw=0, nmx=0, nmap=0):
    return {"id": pid, "fam": fam, "lang": "locks", "nrw": nrw, "nmx": nmx, "nmap": nmap,
            "tasks": [{"kind": "thread", "ops": t} for t in tasks]}


def cop(k, o=0, v=0):
    """an operation that is skipped when the task's latest try operation failed"""
    return {"k": k, "o": o, "v": v, "c": 1}


def gen_rw(count, seed, first_id=8500):
    """One parking_lot RwLock: every task walks none -> shared / upgradable / exclusive and back, including the
    upgrade and the three downgrades; what follows a try operation runs only if it succeeded."""
    rng = random.Random(f"pl_rw:{seed}")
    out = []
    for i in range(count):
        n = rng.randint(2, 3)
        tasks = []
        for t in range(n):
            ops = []
            mode = "none"
            cond = False
            mk = (lambda k, v=0: cop(k, 0, v)) if False else None
            for _ in range(rng.randint(2, 5)):
                def emit(k, v=0):
                    ops.append(cop(k, 0, v) if cond else op(k, 0, v))
                if mode == "none":
                    k = rng.choice(["rd_lock", "rd_lock", "rd_try", "wr_lock", "wr_lock", "wr_try", "up_lock", "up_lock", "up_try", "yield"])
                    if k == "yield":
                        ops.append(op("yield"))
                        continue
                    cond = k.endswith("_try")
                    ops.append(op(k, 0))
                    mode = {"rd": "rd", "wr": "wr", "up": "up"}[k[:2]]
                elif mode == "rd":
                    k = rng.choice(["get", "rd_unlock", "rd_unlock", "yield"])
                    emit(k)
                    if k == "rd_unlock":
                        mode, cond = "none", False
                elif mode == "up":
                    k = rng.choice(["get", "upgrade", "upgrade", "try_upgrade", "down_up", "up_unlock", "yield"])
                    if k == "try_upgrade":
                        # keep it simple: a failed try_upgrade ends the critical section
                        emit("try_upgrade")
                        emit("get")
                        break
                    emit(k)
                    mode = {"upgrade": "wr", "down_up": "rd", "up_unlock": "none"}.get(k, "up")
                    if mode == "none":
                        cond = False
                else:
                    k = rng.choice(["get", "set", "set", "downgrade", "down_to_up", "wr_unlock", "yield"])
                    emit(k, rng.randint(1, 9) + 10 * t if k == "set" else 0)
                    mode = {"downgrade": "rd", "down_to_up": "up", "wr_unlock": "none"}.get(k, "wr")
                    if mode == "none":
                        cond = False
            tasks.append(ops)
        out.append(lprog(first_id + i, "pl_rw", tasks, nrw=1))
    return out


def gen_dm(count, seed, first_id=8800):
    rng = random.Random(f"pl_dm:{seed}")
    out = []
    for i in range(count):
        n = rng.randint(2, 3)
        tasks = []
        for t in range(n):
            ops = []
            for _ in range(rng.randint(1, 3)):
                k = rng.choice(["dm_insert", "dm_insert", "dm_get", "dm_remove", "dm_contains", "dm_len", "dm_alter", "dm_clear"])
                ops.append(op(k, rng.choice([0, 0, 1, 2]), rng.randint(1, 9) + 10 * t))
            tasks.append(ops)
        out.append(lprog(first_id + i, "pl_dm", tasks, nmap=1))
    return out


def gen_pm(count, seed, first_id=9100):
    rng = random.Random(f"pl_mx:{seed}")
    out = []
    for i in range(count):
        n = rng.randint(2, 3)
        tasks = []
        for t in range(n):
            ops = []
            held = False
            cond = False
            for _ in range(rng.randint(1, 4)):
                if not held:
                    k = rng.choice(["pm_lock", "pm_lock", "pm_try", "yield"])
                    ops.append(op(k, 0))
                    if k != "yield":
                        held, cond = True, k == "pm_try"
                else:
                    k = rng.choice(["pm_unlock", "pm_unlock", "yield"])
                    ops.append(cop(k, 0) if cond else op(k, 0))
                    if k == "pm_unlock":
                        held, cond = False, False
            tasks.append(ops)
        out.append(lprog(first_id + i, "pl_mx", tasks, nmx=1))
    return out


def pl_corpus():
    P = []
    # a writer downgrades to upgradable while another thread is queued for the upgradable slot
    P.append(lprog(8400, "pl_corpus", [
        [op("wr_lock"), op("set", 0, 1), op("yield"), op("down_to_up"), op("get"), op("up_unlock")],
        [op("up_lock"), op("get"), op("up_unlock")]], nrw=1))
    # an upgrade that has to wait for a reader while a writer is queued: the writer must not get in first
    P.append(lprog(8401, "pl_corpus", [
        [op("up_lock"), op("get"), op("upgrade"), op("get"), op("set", 0, 7), op("wr_unlock")],
        [op("wr_lock"), op("set", 0, 5), op("wr_unlock")],
        [op("rd_lock"), op("yield"), op("rd_unlock")]], nrw=1))
    # downgrade / downgrade_upgradable with a queued writer and reader
    P.append(lprog(8402, "pl_corpus", [
        [op("wr_lock"), op("set", 0, 3), op("downgrade"), op("get"), op("rd_unlock")],
        [op("wr_lock"), op("set", 0, 4), op("wr_unlock")],
        [op("rd_lock"), op("get"), op("rd_unlock")]], nrw=1))
    P.append(lprog(8403, "pl_corpus", [
        [op("up_lock"), op("down_up"), op("get"), op("rd_unlock")],
        [op("up_lock"), op("upgrade"), op("set", 0, 9), op("wr_unlock")]], nrw=1))
    # try variants against every mode
    P.append(lprog(8404, "pl_corpus", [
        [op("up_lock"), op("yield"), op("try_upgrade"), cop("set", 0, 2), op("yield")],
        [op("rd_try"), cop("get"), cop("rd_unlock"), op("wr_try"), cop("wr_unlock"), op("up_try"), cop("up_unlock")]], nrw=1))
    # DashMap: read-modify-write operations are atomic (no lost update, the key never vanishes in between)
    P.append(lprog(8405, "pl_corpus", [
        [op("dm_insert", 0, 1), op("dm_alter", 0, 1), op("dm_get", 0)],
        [op("dm_alter", 0, 10), op("dm_get", 0)]], nmap=1))
    P.append(lprog(8406, "pl_corpus", [
        [op("dm_insert", 0, 1), op("dm_alter", 0, 1), op("dm_alter", 0, 1)],
        [op("dm_contains", 0), op("dm_contains", 0), op("dm_len", 0)],
        [op("dm_get", 0), op("dm_get", 0)]], nmap=1))
    P.append(lprog(8407, "pl_corpus", [
        [op("dm_insert", 1, 5), op("dm_remove", 1), op("dm_insert", 1, 6)],
        [op("dm_insert", 1, 7), op("dm_alter", 1, 1), op("dm_get", 1)]], nmap=1))
    return P


def gen_watch(count, seed, first_id=9400):
    rng = random.Random(f"tk_watch:{seed}")
    out = []
    for i in range(count):
        nrx = rng.randint(1, 2)
        kinds = ["thread"] + [rng.choice(["thread", "future"]) for _ in range(nrx)]
        sops = []
        for j in range(rng.randint(1, 3)):
            sops.append(op(rng.choice(["w_send", "w_send", "w_send", "yield"]), 0, j + 1))
        if rng.random() < 0.4:
            sops.append(op("w_drop_tx", 0))
        tasks = [task("thread", sops, wtx=[0])]
        for r in range(1, nrx + 1):
            rops = []
            for _ in range(rng.randint(1, 4)):
                rops.append(op(rng.choice(["w_changed", "w_changed", "w_borrow", "w_bupd", "w_has", "w_drop_rx"]), 0))
                if rops[-1]["k"] == "w_drop_rx":
                    break
            tasks.append(task(kinds[r], rops, wrx=[0]))
        if rng.random() < 0.3:
            tasks[0]["wrx"] = [0]
            tasks[0]["ops"].append(op("w_bupd", 0))
        out.append(tprog(first_id + i, "tk_watch", tasks, nwt=1))
    return out


def gen_trw(count, seed, first_id=9700):
    """tokio RwLock: readers / writers / try variants / downgrade, with the protected value read and written."""
    rng = random.Random(f"tk_rwlock:{seed}")
    out = []
    for i in range(count):
        n = rng.randint(2, 3)
        kinds = ["thread"] + [rng.choice(["thread", "future"]) for _ in range(n - 1)]
        tasks = []
        for t in range(n):
            ops = []
            mode = "none"
            for _ in range(rng.randint(2, 5)):
                if mode == "none":
                    k = rng.choice(["rw_read", "rw_read", "rw_write", "rw_write", "rw_try_read", "rw_try_write", "yield"])
                    ops.append(op(k, 0))
                    if k != "yield":
                        mode = "r" if "read" in k else "w"
                elif mode == "r":
                    k = rng.choice(["rw_get", "rw_unlock", "rw_unlock", "yield"])
                    ops.append(op(k, 0))
                    if k == "rw_unlock":
                        mode = "none"
                else:
                    k = rng.choice(["rw_get", "rw_set", "rw_set", "rw_downgrade", "rw_unlock", "yield"])
                    ops.append(op(k, 0, rng.randint(1, 9) + 10 * t))
                    mode = {"rw_downgrade": "r", "rw_unlock": "none"}.get(k, "w")
            tasks.append(task(kinds[t], ops))
        out.append(tprog(first_id + i, "tk_rwlock", tasks, nrwl=1))
    return out


def gen_cancel(count, seed, first_id=9950):
    """Abort of a future task that may be pending in notified() / acquire / lock: the request leaves the queue, what
    was already handed over is passed on (tokio's cancel safety).  Abortable tasks own no channel handles."""
    rng = random.Random(f"tk_cancel:{seed}")
    out = []
    for i in range(count):
        n = rng.randint(3, 4)
        kinds = ["thread"] + ["future"] * (n - 1)
        which = rng.choice(["nt", "nt", "sm", "mx"])
        tasks = []
        victim = rng.randint(1, n - 1)
        for t in range(1, n):
            if which == "nt":
                ops = [op("nt_wait", 0)]
            elif which == "sm":
                ops = [op("sm_acq", 0, rng.randint(1, 2)), op("yield"), op("sm_rel", 0)]
            else:
                ops = [op("mx_lock", 0), op("yield"), op("mx_unlock", 0)]
            if t != victim and rng.random() < 0.3:
                ops.append(op("yield"))
            tasks.append(task(kinds[t], ops))
        main = []
        acts = [op("abort", 0, victim)]
        if which == "nt":
            acts += [op("nt_one", 0) for _ in range(n - 2 + rng.choice([0, 0, 1]))]
        elif which == "sm":
            acts += [op("sm_add", 0, rng.randint(1, 2)) for _ in range(rng.randint(1, 2))]
        rng.shuffle(acts)
        if rng.random() < 0.5:
            main.append(op("yield"))
        main += acts
        kw = dict(nnt=1) if which == "nt" else (dict(sems=[rng.randint(0, 1)]) if which == "sm" else dict(nmx=1))
        out.append(tprog(first_id + i, "tk_cancel", [task("thread", main)] + tasks, **kw))
    return out


def gen_oncecell(count, seed, first_id=10300):
    """OnceCell: racing get_or_init / get_or_try_init (initialisers with scheduling points inside, some failing), set, get,
    and the abort of a future task that may be initialising or waiting for another task's initialiser."""
    rng = random.Random(f"tk_oncecell:{seed}")
    out = []
    for i in range(count):
        n = rng.randint(2, 4)
        with_abort = n >= 3 and rng.random() < 0.4
        kinds = ["thread"] + [("future" if with_abort else rng.choice(["thread", "future"])) for _ in range(n - 1)]
        victim = rng.randint(1, n - 1) if with_abort else -1
        tasks = []
        for t in range(n):
            ops = []
            if t == 0 and with_abort:
                if rng.random() < 0.5:
                    ops.append(op("yield"))
                ops.append(op("abort", 0, victim))
            for _ in range(rng.randint(1, 3)):
                k = rng.choice(["oc_init", "oc_init", "oc_try", "oc_set", "oc_get", "oc_initd", "yield"])
                val = 10 * (t + 1) + len(ops)       # every write attempt carries a value of its own
                if k in ("oc_init", "oc_try"):
                    o = op(k, 0, -1 if (k == "oc_try" and rng.random() < 0.5) else val)
                    o["w"] = rng.randint(0, 2)
                    ops.append(o)
                elif k == "oc_set":
                    ops.append(op(k, 0, val))
                else:
                    ops.append(op(k, 0))
            tasks.append(task(kinds[t], ops))
        out.append(tprog(first_id + i, "tk_oncecell", tasks, noc=1))
    return out


def family(fam, count, seed):
    if fam == "tk_oncecell":
        return gen_oncecell(count, seed)
    if fam == "tk_cancel":
        return gen_cancel(count, seed)
    if fam == "tk_watch":
        return gen_watch(count, seed)
    if fam == "tk_rwlock":
        return gen_trw(count, seed)
    if fam == "pl_rw":
        return gen_rw(count, seed)
    if fam == "pl_dm":
        return gen_dm(count, seed)
    if fam == "pl_mx":
        return gen_pm(count, seed)
    if fam == "pl_corpus":
        return pl_corpus()
    if fam == "tk_mpsc":
        return gen_mpsc(count, seed)
    if fam == "tk_oneshot":
        return gen_oneshot(count, seed)
    if fam == "tk_notify":
        return gen_simple(fam, count, seed, 7600, ["nt_one", "nt_one", "nt_all", "nt_wait", "nt_wait", "yield"], dict(nnt=1))
    if fam == "tk_sem":
        return gen_simple(fam, count, seed, 7900, ["sm_acq", "sm_acq", "sm_try", "sm_rel", "sm_add", "sm_avail", "sm_close"], dict(sems=[1]))
    if fam == "tk_mutex":
        return gen_simple(fam, count, seed, 8200, ["mx_lock", "mx_lock", "mx_try", "mx_unlock", "yield"], dict(nmx=1))
    if fam == "tk_corpus":
        return tk_corpus()
    raise KeyError(fam)


def tk_corpus():
    P = []
    # every receive method gives the slot back: two blocking receives against two sends on a channel of capacity 1
    P.append(tprog(6900, "tk_corpus", [
        task("thread", [op("brecv", 0), op("brecv", 0)], rx=[0]),
        task("thread", [op("send", 0, 1), op("send", 0, 2), op("cap", 0)], tx=[0])], chans=[1]))
    P.append(tprog(6901, "tk_corpus", [
        task("thread", [op("recv", 0), op("try_recv", 0), op("recv", 0)], rx=[0]),
        task("future", [op("send", 0, 1), op("send", 0, 2), op("cap", 0), op("send", 0, 3)], tx=[0])], chans=[1]))
    # close with buffered messages and a blocked sender
    P.append(tprog(6902, "tk_corpus", [
        task("thread", [op("yield"), op("close", 0), op("recv", 0), op("recv", 0), op("recv", 0)], rx=[0]),
        task("future", [op("send", 0, 1), op("send", 0, 2), op("send", 0, 3)], tx=[0])], chans=[1]))
    # a stored permit survives notify_waiters; notify_one before / after the waiter registers
    P.append(tprog(6903, "tk_corpus", [
        task("thread", [op("nt_one", 0), op("nt_all", 0), op("nt_wait", 0)])], nnt=1))
    P.append(tprog(6904, "tk_corpus", [
        task("thread", [op("nt_one", 0), op("nt_one", 0)]),
        task("future", [op("nt_wait", 0), op("nt_wait", 0)])], nnt=1))
    P.append(tprog(6905, "tk_corpus", [
        task("thread", [op("yield"), op("nt_all", 0), op("nt_one", 0)]),
        task("future", [op("nt_wait", 0)]),
        task("future", [op("nt_wait", 0)])], nnt=1))
    # FIFO semaphore: a big request at the head holds back a small one behind it
    P.append(tprog(6906, "tk_corpus", [
        task("thread", [op("sm_add", 0, 1), op("sm_add", 0, 1)]),
        task("future", [op("sm_acq", 0, 2), op("sm_rel", 0)]),
        task("future", [op("sm_acq", 0, 1), op("sm_avail", 0)])], sems=[0]))
    # oneshot: value sent then sender gone; receiver closes first
    P.append(tprog(6907, "tk_corpus", [
        task("thread", [op("os_close", 0), op("os_try", 0), op("os_recv", 0)], orx=[0]),
        task("future", [op("os_send", 0, 4)], otx=[0])], nos=1))
    return P
