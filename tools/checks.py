"""Per-property checks built from the shared pipeline (bindings A and B of DESIGN.md section 2)."""
import json
import os
import sys
import time

import gen
import vlib
from vlib import log


def fmt_op(o):
    k = o["k"]
    if k in ("spawn", "spawn_named", "sspawn", "spawn_future", "join", "unpark", "panic", "abort", "detach", "await_join", "try_join", "is_finished"):
        return f"{k}({o['v']})"
    if k in ("lock", "try_lock", "read", "write", "try_read", "try_write"):
        return f"{k}(o{o['o']},g{o['w']})"
    if k in ("unlock", "unlock_if", "punlock", "ginc", "gget"):
        return f"{k}(g{o['w']})"
    if k == "cv_wait":
        return f"cv_wait(cv{o['o']},m{o['v']},g{o['w']})"
    if k in ("set_flag", "await_flag", "wake_only", "reg_flag"):
        return f"{k}(f{o['o']})"
    if k in ("yield", "spin", "sleep", "park", "nop", "rand", "reset_steps", "scope_begin", "scope_end", "tid", "name", "me", "ayield", "suspend", "bo_begin", "bo_end", "label_get"):
        return k
    return f"{k}(o{o['o']},v{o['v']},w{o['w']})"


def fmt_prog(p):
    objs = {k: p[k] for k in ("nmutex", "atomics", "ncv", "nrw", "chans", "sems", "barriers", "nonce") if p.get(k)}
    lines = [f"prog {p['id']} [{p['fam']}] objs={json.dumps(objs)}" + (f" maxsteps={p['maxsteps']}" if p.get("maxsteps") else "")
             + (f" tls_touch={p['tls_touch']} tls_yield={p['tls_yield']}" if p.get("fam") == "tls" else "")]
    for i, t in enumerate(p["tasks"]):
        lines.append(f"  T{i}: " + "; ".join(fmt_op(o) for o in t))
    return "\n".join(lines)


def fmt_ev(e):
    if e["e"] == "dec" and not e.get("det"):
        return f"dec run={e['run']} sp={e['sp']} cur={e['cur']} y={int(e['y'])} -> {e['ch']}"
    if e["e"] == "dec" and e.get("det"):
        return f"dec run={e['run']} sp={e['sp']} det={e['det']} cur={e['cur']} y={int(e['y'])} -> {e['ch']}"
    if e["e"] == "dt":
        return f"   dtor t{e['t']} key{e['key']} val={e['val']} touch={e['touch']} -> {e['tr']}"
    if e["e"] == "op":
        return f"   op t{e['t']} c{e['c']} pc{e['pc']} {e['k']} = {e['r']}" + (f" clk={e['clk']}" if "clk" in e else "")
    return json.dumps(e)


def fmt_problem(v):
    out = [f"--- {v['kind']}  sig={v['sig']}"]
    if "prog" in v:
        out.append(fmt_prog(v["prog"]))
    if v["kind"] in ("trace-rejected", "invariant-violated") and "matched" in v:
        m = v["matched"]
        evs = v["events"]
        lo = max(0, m - 14)
        for i in range(lo, min(len(evs), m + 3)):
            out.append(("  ok  " if i < m else "  ??  ") + fmt_ev(evs[i]))
        out.append("  spec state before the unmatched event: " + v["spec_state"][:1800])
    for k in ("outcomes", "impl_outcomes", "witness", "divergence", "errors", "detail", "stderr", "class", "input"):
        if k == "detail" and isinstance(v.get(k), dict):
            out.append("  detail: " + json.dumps(v[k])[:2500])
            continue
        if k in v:
            out.append(f"  {k}: " + json.dumps(v[k])[:1500])
    return "\n".join(out)


def last_op_before(events, idx):
    for j in range(idx - 1, -1, -1):
        if events[j].get("e") == "op":
            return events[j]["k"]
    return "start"


def trace_signature(fam, diag):
    ev = diag["first_unmatched"]
    if ev is None:
        return f"{fam}/trace/accepted?"
    i = diag["matched"]
    prev = last_op_before(diag["events"], i)
    if ev["e"] == "op":
        return f"{fam}/trace/op:{ev['k']}:r={ev['r']}/after:{prev}"
    if ev["e"] == "dec":
        return f"{fam}/trace/dec/after:{prev}"
    if ev["e"] == "end":
        return f"{fam}/trace/end:{ev['v']}/after:{prev}"
    return f"{fam}/trace/{ev['e']}/after:{prev}"


# operations without any effect another task (or the caller) can observe: whether a task that is cut off at the end
# of the execution had already performed them is not part of an outcome
INVISIBLE_OPS = {"detach"}


def canon_outcome(o, p):
    try:
        d = json.loads(o)
        obs, unf = d["obs"], set(d.get("unf", []))
    except Exception:
        return o
    for c in list(unf):
        if c < len(obs) and c < len(p["tasks"]):
            rest = p["tasks"][c][len(obs[c]):]
            if rest and all(x["k"] in INVISIBLE_OPS for x in rest):
                obs[c] = obs[c] + [0] * len(rest)
                unf.discard(c)
    d["unf"] = sorted(unf)
    return json.dumps(d, sort_keys=True, separators=(",", ":"))


def family_pipeline(fam, progs, outdir, cap=20000, do_mc=True, workers=8, max_diag=6, clock=False, sample=None, pb=None):
    """Run one program family through enumeration (or, with sample=iters, sampling under the built-in
    schedulers with the record/replay differential), trace-trie validation and outcome comparison."""
    t0 = time.time()
    extra = ()
    if sample:
        extra = ("--mode", "sample", "--iters", str(sample), "--seed", str(vlib.seed()), "--slen")
        do_mc = False
    if pb is not None:
        # preemption-bounded systematic enumeration (all schedules with at most `pb` preemptions)
        extra = tuple(extra) + ("--pb", str(pb))
    meta, t_enum = vlib.run_enum(progs, outdir, cap=cap, clock=clock, extra=extra)
    if pb is not None:
        for m in meta:
            m["capped"] = True     # not the whole tree: outcome sets are compared in the impl-in-spec direction only
    by_id = {p["id"]: p for p in progs}
    problems = []
    crashed = [m for m in meta if m.get("crashed")]
    for m in crashed:
        problems.append({"kind": "harness-crash", "prog": by_id[m["prog"]], "stderr": m["stderr"],
                         "sig": f"{fam}/harness-crash"})
    nondet = [m for m in meta if m.get("nondet")]
    for m in nondet:
        problems.append({"kind": "nondeterminism", "prog": by_id[m["prog"]], "detail": m["nondet"],
                         "sig": f"{fam}/nondeterministic-offered-list"})
    execs = sum(m.get("execs", 0) for m in meta)
    replays = 0
    for m in meta:
        replays += m.get("replays", 0)
        seen = set()
        for mm in m.get("mismatches", []):
            sig = f"{fam}/{mm['kind']}/{mm.get('variant', 'string')}/{mm.get('sched', '-')}"
            if sig in seen:
                continue
            seen.add(sig)
            problems.append({"kind": "replay-mismatch", "prog": by_id[m["prog"]], "detail": mm, "sig": sig})
    # iteration budgets (C13): number of body invocations and return value of Runner::run
    for m in meta:
        for b in m.get("budgets", []):
            rets = b["returns"]
            if any(n is not None and n > 10**9 for _, n in rets):
                continue  # the scheduler refused to continue (PCT without any concurrency): not a budget question
            exp_max = b["budget"]
            bad = None
            if b["sched"] in ("random", "urw", "pct", "rr", "stopper"):
                if b["execs"] != exp_max:
                    bad = f"{b['execs']} executions under an iteration budget of {exp_max}"
            elif b["execs"] > exp_max:
                bad = f"{b['execs']} executions under an iteration budget of {exp_max}"
            # every successful Runner::run returns the number of executions it performed
            for ret, n in rets:
                if bad is None and ret is not None and ret != n:
                    bad = f"Runner::run returned {ret} after invoking the body {n} times"
            if bad:
                problems.append({"kind": "budget-mismatch", "prog": by_id[m["prog"]], "detail": dict(b, what=bad),
                                 "sig": f"{fam}/budget/{b['sched']}"})
    reached, leaves, tres = vlib.validate_trie(outdir, workers=workers)
    if not tres["ok"]:
        problems.append({"kind": "tlc-error", "where": "TraceShuttle", "errors": tres["errors"][:5],
                         "sig": f"{fam}/tlc-error/trace", "out": tres["out"]})
    inv_leaves = {}
    for leaf, names in tres.get("leaf_violations", {}).items():
        for nm in names:
            inv_leaves.setdefault(nm, []).append(leaf)
    if inv_leaves:
        nodes, parent = vlib.load_trie(outdir)
        for nm, lvs in inv_leaves.items():
            leaf = min(lvs)
            path = vlib.path_to(nodes, parent, leaf)
            pid = nodes[path[0]]["ev"]["p"]
            evs = [nodes[n]["ev"] for n in path]
            d = vlib.diagnose_invariant(outdir, nodes, parent, leaf, nm)
            at = evs[d - 1] if 0 < d <= len(evs) else evs[-1]
            problems.append({"kind": "invariant-violated", "invariant": nm, "prog": by_id[pid], "count": len(lvs),
                             "events": evs[:d], "matched": d, "spec_state": "(state after the last event shown)",
                             "sig": f"{fam}/invariant/{nm}/at:{at.get('e')}" + (":" + at["k"] if "k" in at else "")})
    missing = sorted(leaves - reached)
    diag_done = 0
    if missing:
        nodes, parent = vlib.load_trie(outdir)
        seen_prog = set()
        for leaf in missing:
            path = vlib.path_to(nodes, parent, leaf)
            pid = nodes[path[0]]["ev"]["p"]
            if pid in seen_prog:
                continue
            seen_prog.add(pid)
            if diag_done >= max_diag:
                continue
            d = vlib.diagnose_leaf(outdir, nodes, parent, leaf, str(leaf))
            diag_done += 1
            problems.append({"kind": "trace-rejected", "prog": by_id[pid], "leaf": leaf,
                             "matched": d["matched"], "first_unmatched": d["first_unmatched"],
                             "events": d["events"], "spec_state": d["spec_state"],
                             "sig": trace_signature(fam, d)})
        for pid in sorted(seen_prog):
            pass
    summary = {"family": fam, "programs": len(progs), "executions": execs, "trie_nodes": tres.get("nodes", 0),
               "leaves": len(leaves), "leaves_reached": len(leaves & reached),
               "trace_states": tres["states"], "trace_transitions": tres["transitions"],
               "capped": sum(1 for m in meta if m.get("capped")), "replays": replays, "t_enum": round(t_enum, 1),
               "t_trace": round(tres["wall"], 1)}
    if do_mc:
        spec_outs, mres = vlib.run_mc(os.path.join(outdir, "progs.ndjson"), outdir, workers=workers)
        if not mres["ok"]:
            problems.append({"kind": "tlc-error", "where": "MCShuttle", "errors": mres["errors"][:5],
                             "sig": f"{fam}/tlc-error/mc", "out": mres["out"]})
        impl_outs = vlib.impl_outcomes(meta)
        capped = {m["prog"] for m in meta if m.get("capped")}
        n_spec = n_impl = miss_impl = miss_spec = 0
        idx_of = {p["id"]: i for i, p in enumerate(progs)}
        for pid, p in by_id.items():
            spec_outs[pid] = {canon_outcome(o, p): w for o, w in spec_outs.get(pid, {}).items()}
            so = set(spec_outs[pid].keys())
            io = {canon_outcome(o, p) for o in impl_outs.get(pid, set())}
            n_spec += len(so)
            n_impl += len(io)
            extra = io - so
            if extra:
                miss_spec += len(extra)
                problems.append({"kind": "outcome-missing-in-spec", "prog": p, "outcomes": sorted(extra)[:3],
                                 "sig": f"{fam}/outcome/impl-not-in-spec"})
            if pid not in capped:
                lost = so - io
                if lost:
                    miss_impl += len(lost)
                    # binding C: drive the runtime along the specification's witness and name the
                    # first point at which it cannot follow
                    by_sig = {}
                    for o in sorted(lost)[:4]:
                        wit = spec_outs[pid][o]
                        rep = vlib.run_directed(os.path.join(outdir, "progs.ndjson"), idx_of[pid], wit)
                        sig = vlib.divergence_signature(rep)
                        d = rep.get("divergence") or {}
                        if sig == "followed-to-different-outcome":
                            # every choice of the witness was offered and taken, yet some operation answered differently:
                            # name the first such operation
                            try:
                                want = json.loads(o)["obs"]
                                for ev in rep.get("events", []):
                                    if ev.get("e") == "op" and ev.get("k") != "ret":
                                        c, pc = ev["c"], ev["pc"]
                                        if c < len(want) and pc - 1 < len(want[c]) and want[c][pc - 1] != ev["r"]:
                                            sig = f"followed-to-different-outcome({ev['k']})"
                                            break
                            except Exception:
                                pass
                        if d.get("kind") == "not-offered":
                            c, pc = d["want"][0], d["want"][1]
                            code = p["tasks"][c]
                            sig = f"needed-task-not-offered({code[pc-1]['k'] if pc <= len(code) else 'exit'})"
                        # Operations known to lack a scheduling point of their own (open findings) make other outcomes of the
                        # same program unreachable too, and where the directed replay first diverges depends on the witness
                        # TLC happened to print: such gaps are attributed to the operation the program contains.
                        if match_known("C02", "incomplete/" + sig, vlib.load_known()) is None:
                            kinds = {x["k"] for t_ in p["tasks"] for x in t_}
                            for kop in ("drop_tx", "drop_rx", "barrier_wait"):
                                if kop in kinds:
                                    sig = f"in-program-with({kop})"
                                    break
                        by_sig.setdefault(sig, []).append({"outcome": o, "witness": wit, "divergence": rep.get("divergence")})
                    for sig, items in by_sig.items():
                        problems.append({"kind": "outcome-missing-in-impl", "prog": p,
                                         "outcomes": [it["outcome"] for it in items][:3],
                                         "witness": items[0]["witness"], "divergence": items[0]["divergence"],
                                         "impl_outcomes": sorted(io)[:6],
                                         "sig": f"incomplete/{sig}"})
        summary.update({"mc_states": mres["states"], "mc_transitions": mres["transitions"],
                        "spec_outcomes": n_spec, "impl_outcomes": n_impl,
                        "outcomes_missing_in_impl": miss_impl, "outcomes_missing_in_spec": miss_spec,
                        "t_mc": round(mres["wall"], 1)})
    summary["wall"] = round(time.time() - t0, 1)
    return {"summary": summary, "problems": problems, "meta": meta}



# ---------------------------------------------------------------------------------------------
# Property table.  Each stage: (family, programs quick, programs thorough, do_mc)

def F(fam, q, t, mc=True, sample=None, pb=None, clock=False):
    return {"fam": fam, "quick": q, "thorough": t, "mc": mc, "sample": sample, "pb": pb, "clock": clock}


def K(fam, q, t, pb=None, pbq=2):
    """executions (preemption-bounded by default, so that a capped exploration still varies the early choices) with the
    vector clock logged after every operation (Clocks.tla checks)"""
    d = F(fam, q, t, mc=False, pb=pb, clock=True)
    d["pb_quick"] = pbq if pb is None else pb
    return d


def S(fam, q, t):
    """sampled under random/urw/dfs/rr/pct with the record/replay differential"""
    return {"fam": fam, "quick": q, "thorough": t, "mc": False, "sample": (25, 200)}


SHUTTLE_PROPS = {
    "C15": {"stages": [K("kernel", 8, 120), K("mutex", 8, 120), K("atomic", 8, 150), K("rwlock", 8, 120), K("condvar", 8, 150),
                       K("mpsc", 12, 200), K("mpsc_drop", 8, 150), K("barrier", 8, 120), K("barrier_reuse", 6, 80),
                       K("once", 8, 120), K("statics", 6, 100), K("sem_fair", 8, 150), K("sem_unfair", 8, 150),
                       K("async_noabort", 8, 120), K("async", 8, 120), K("corpus_sync", 0, 0), K("corpus_mpsc", 0, 0),
                       K("corpus_locks", 0, 0), K("corpus_sync_pb", 0, 0, pb=2), K("corpus_sem", 0, 0)],
            "kinds": {"invariant-violated", "trace-rejected", "harness-crash", "tlc-error"},
            "assume": ["soundness against the edges the property lists; precision against the object-conservative relation (every operation on an object after every earlier one on it, plus tasks queued on it)",
                       "no edge is claimed for a lazy static that is already initialised, for park/unpark, or for failed try operations",
                       "target-clock replay (ReplayScheduler::set_target_clock) is not covered yet"]},
    "C17": {"stages": [F("async", 30, 150), F("async_noabort", 24, 120), F("async_sem", 24, 120), F("corpus_sem", 0, 0), F("corpus_isfin", 0, 0, mc=False),
                       F("async_blk", 20, 100), F("async_wake", 16, 100), F("corpus_async", 0, 0),
                       {"fam": "async", "quick": 10, "thorough": 100, "mc": False, "sample": (40, 300), "pb": None}],
            "assume": ["one awaiter per hand-written waker slot; blocking std calls inside a poll are lock/unlock pairs and channel receives (no guard is held across an await)",
                       "block_on sections of threads use the same poll loop as spawned futures"]},
    "C07": {"stages": [F("ident", 24, 200, mc=False), F("tls", 30, 300, mc=False), F("corpus_tls", 0, 0, mc=False), F("scope", 24, 200, mc=False),
                       F("kernel", 14, 150)],
            "assume": ["thread-local destructor behaviour (reads another key / yields while dropping) is configured per program",
                       "scope returns once every scoped closure has returned (as in std, thread-local destructors of scoped threads may still be pending)"]},
    "C14": {"stages": [S("statics", 12, 120), S("tls", 12, 120), S("ident", 8, 80), S("scope", 8, 80), S("bounds", 12, 100),
                       S("once", 8, 80), S("corpus_deadlock", 0, 0), F("statics", 16, 150, mc=False)],
            "kinds": {"replay-mismatch", "trace-rejected", "invariant-violated", "nondeterminism", "harness-crash", "tlc-error"},
            "assume": ["every iteration of a multi-iteration run is validated from the specification's initial state (task ids from 0, statics/Once/lazy/TLS uninitialised, step counter 0)",
                       "predecessor kinds: completed, abandoned by a None-returning scheduler, abandoned by ContinueAfter, failed (deadlock/panic, caught)",
                       "memory-level isolation (recycled stacks) is only observed through behaviour and drop counters"]},
    "C13": {"stages": [F("bounds", 40, 400, mc=False), S("bounds", 16, 150), S("kernel", 8, 60), F("corpus_stop", 0, 0, mc=False)],
            "kinds": {"trace-rejected", "invariant-violated", "budget-mismatch", "nondeterminism", "harness-crash", "tlc-error"},
            "assume": ["steps = schedule entries (decisions + random draws) since the last reset_step_count",
                       "an execution that needs exactly n steps may or may not be reported (unspecified corner)",
                       "wall-clock limit (max_time) is not modelled: only iteration budgets"]},
    "C01": {"stages": [S("kernel_rand", 10, 100), S("mutex", 8, 100), S("condvar", 8, 100), S("mpsc", 8, 100),
                       S("rwlock", 6, 80), S("park", 8, 80), S("barrier", 6, 80), S("once", 6, 80),
                       S("sem_fair", 6, 80), S("sem_unfair", 6, 80), S("tls", 8, 80), S("statics", 6, 60), S("async", 6, 60),
                       S("corpus_deadlock", 0, 0), S("corpus_locks", 0, 0)],
            "kinds": {"replay-mismatch", "trace-rejected", "nondeterminism", "harness-crash", "tlc-error"},
            "assume": ["schedulers: random, urw, dfs (with random data), round-robin, pct(depth 3), fixed seeds from VERIF_SEED",
                       "replayed through ReplayScheduler::new_from_encoded (with/without line breaks), shuttle::replay and shuttle::replay_from_file"]},
    # completeness: every outcome of the all-interleavings model must be produced by some schedule
    "C02": {"stages": [F("kernel", 14, 150), F("mutex", 14, 120), F("rwlock", 16, 150), F("atomic", 20, 200),
                       F("condvar", 18, 200), F("park", 20, 150), F("barrier", 20, 150), F("barrier_reuse", 12, 100),
                       F("once", 16, 150), F("mpsc", 30, 300), F("mpsc_drop", 30, 300), F("sem_unfair", 20, 200),
                       F("sem_fair", 20, 200), F("async", 30, 150), F("async_noabort", 24, 120), F("async_sem", 24, 120),
                       F("async_blk", 16, 80), F("corpus_async", 0, 0), F("corpus_sem", 0, 0), F("corpus_isfin", 0, 0), F("corpus_deadlock", 0, 0), F("corpus_locks", 0, 0),
                       F("corpus_sync", 0, 0), F("corpus_mpsc", 0, 0)],
            "kinds": {"outcome-missing-in-impl", "harness-crash", "tlc-error"},
            "assume": ["outcome = per-thread results + termination kind + unfinished set; spurious park wake-ups are not part of outcome sets",
                       "programs whose runtime tree exceeds the execution cap are compared in the impl-in-spec direction only"]},
    "C03": {"stages": [F("mutex", 14, 120), F("condvar", 14, 120), F("park", 20, 150), F("mpsc", 14, 120),
                       F("async", 30, 150), F("async_noabort", 24, 120), F("async_blk", 16, 80), F("async_wake", 12, 80),
                       F("corpus_async", 0, 0), F("corpus_deadlock", 0, 0)],
            "assume": ["termination oracle = derived Status (DESIGN 4.1); tasks<=3, ops<=3 (quick)"]},
    "C04": {"stages": [F("mutex", 20, 200), F("rwlock", 16, 150), F("atomic", 20, 200), F("corpus_locks", 0, 0),
                       F("corpus_poison", 0, 0, mc=False)],
            "assume": ["8-bit atomics in the specification; all orderings treated as SeqCst (Shuttle's documented model)"]},
    "C05": {"stages": [F("condvar", 18, 200), F("barrier", 20, 150), F("barrier_reuse", 12, 100), F("once", 16, 150),
                       F("park", 20, 150), F("park_mix", 16, 150), F("corpus_sync", 0, 0),
                       {"fam": "corpus_sync_big", "quick": 0, "thorough": 0, "mc": False, "sample": (500, 3000)},
                       F("corpus_sync_big", 0, 0, mc=False), F("corpus_sync_pb", 0, 0, mc=False, pb=3)],
            "assume": ["condvar waits never wake spuriously, park may; barrier leader = arrival completing the group"]},
    "C06": {"stages": [F("mpsc", 30, 300), F("mpsc_drop", 30, 300), F("corpus_mpsc", 0, 0)],
            "assume": ["blocked senders/receivers are served FIFO (Shuttle's documented model)"]},
    "C08": {"stages": [F("kernel", 14, 150), F("mutex", 14, 120), F("park", 20, 150), F("corpus_stop", 0, 0, mc=False),
                       S("sem_fair", 6, 60)],
            "assume": ["observed through a recording Scheduler wrapper placed inside the runtime's MetricsScheduler"]},
    "C18": {"stages": [F("sem_unfair", 20, 200), F("sem_fair", 20, 200), F("sem_unfair_obs", 16, 150, mc=False),
                       F("sem_fair_obs", 16, 150, mc=False), F("async_sem", 24, 120), F("corpus_sem", 0, 0)],
            "assume": ["blocking acquires from threads, awaited acquires from futures; cancellation = abort of a future pending in acquire"]},
}

# which problem kinds count for which property
OWN_KINDS = {"trace-rejected", "invariant-violated", "outcome-missing-in-spec", "nondeterminism", "harness-crash", "tlc-error"}


def stage_programs(fam, n):
    import corpus
    if fam.startswith("corpus_"):
        return corpus.get(fam)
    return gen.family(fam, n, vlib.seed())


DEADLINE = [None]   # thorough tier: no new batch of programs is started after this time (set per property run)
CHUNK = 40     # programs per TLC run (larger batches are split: the prefix tree of a thorough batch can exceed TLC's time box)


def merge_results(fam, parts):
    summ = {"family": fam}
    for r in parts:
        for k, v in r["summary"].items():
            if isinstance(v, (int, float)) and k != "family":
                summ[k] = round(summ.get(k, 0) + v, 1) if isinstance(v, float) else summ.get(k, 0) + v
    out = {"summary": summ, "problems": [p for r in parts for p in r["problems"]], "cached": all(r.get("cached") for r in parts)}
    smp = [r.get("sample") for r in parts if r.get("sample")]
    if smp:
        out["sample"] = smp[-1]
    return out


def cached_pipeline(fam, progs, tier, cap, do_mc, sample=None, pb=None, clock=False):
    chunk = CHUNK if tier == "quick" else CHUNK // 4
    if len(progs) > chunk:
        parts = []
        skipped = 0
        for i in range(0, len(progs), chunk):
            if parts and DEADLINE[0] is not None and time.time() > DEADLINE[0]:
                skipped += len(progs[i:i + chunk])       # time box of the thorough tier reached: said so in the evidence
                continue
            parts.append(cached_pipeline(fam, progs[i:i + chunk], tier, cap, do_mc, sample=sample, pb=pb, clock=clock))
        r = merge_results(fam, parts)
        if skipped:
            r["summary"]["programs_skipped_time_box"] = skipped
        return r
    return cached_pipeline1(fam, progs, tier, cap, do_mc, sample=sample, pb=pb, clock=clock)


def cached_pipeline1(fam, progs, tier, cap, do_mc, sample=None, pb=None, clock=False):
    """Family results are shared between the checks of one tree: the key covers the harness binary
    (rebuilt from /repo's working tree just before), the specification, the tools and the programs."""
    import hashlib
    key = hashlib.sha256(json.dumps([vlib.bin_hash(), vlib.spec_hash(), fam, tier, cap, do_mc, sample, pb, clock, vlib.seed(), progs],
                                    sort_keys=True).encode()).hexdigest()[:24]
    cdir = os.path.join(vlib.WORK, "cache")
    os.makedirs(cdir, exist_ok=True)
    cfile = os.path.join(cdir, key + ".json")
    if os.path.exists(cfile) and not os.environ.get("VERIF_NOCACHE"):
        try:
            r = json.load(open(cfile))
            r["cached"] = True
            return r
        except Exception:
            pass
    out = os.path.join(vlib.WORK, f"run-{fam}-{tier}" + ("-s" if sample else "") + (f"-pb{pb}" if pb is not None else "") + ("-clk" if clock else "")
                       + (f"-{progs[0]['id']}" if tier != "quick" and progs else ""))
    r = family_pipeline(fam, progs, out, cap=cap, do_mc=do_mc, sample=sample, pb=pb, clock=clock)
    r.pop("meta", None)
    # keep a few sample traces for the evidence
    r["sample"] = sample_trace(out)
    with open(cfile + ".tmp", "w") as f:
        json.dump(r, f)
    os.replace(cfile + ".tmp", cfile)
    r["cached"] = False
    return r


def sample_trace(outdir, maxlen=40):
    try:
        nodes, parent = vlib.load_trie(outdir)
    except Exception:
        return None
    for i in range(len(nodes) - 1, 0, -1):
        if not nodes[i]["kids"]:
            path = vlib.path_to(nodes, parent, i)
            return [nodes[n]["ev"] for n in path][:maxlen]
    return None


def match_known(pid, sig, known):
    """exact signature, or (for entries written without a family) the signature with its family prefix removed"""
    tail = sig.split("/", 1)[1] if "/" in sig else sig
    for k in known.get("open", []):
        if k["property"] != pid:
            continue
        if k["sig"].endswith("*") and (sig.startswith(k["sig"][:-1]) or tail.startswith(k["sig"][:-1])):
            return k
        if k["sig"] == sig or k["sig"] == tail:
            return k
    return None


# invariants that state one property's claim are reported by that property's check only (the others still
# validate the same traces against everything else)
INV_OWNER = {"NoLostWake": {"C17"}, "StepBound": {"C13"}, "UnwindingTaskAbandoned": {"C14", "C12"}}


def owned(pid, pr):
    if pr["kind"] != "invariant-violated" or "/invariant/" not in pr["sig"]:
        return True
    name = pr["sig"].split("/invariant/")[1].split("/")[0]
    return name not in INV_OWNER or pid in INV_OWNER[name]


def run_c16(tier):
    """Schedule wire format: TLC checks Decode(Encode(x)) = x on the boundary classes and decides which
    cut strings are invalid; every vector then goes through the real serializer and parser."""
    t0 = time.time()
    vlib.build_harness()
    known = vlib.load_known()
    wd = vlib.fresh_dir(os.path.join(vlib.WORK, "run-c16"))
    res = vlib.run_tlc("Serialization", "Serialization.cfg", {"SER_TIER": tier}, wd, workers=14, timeout=1200)
    problems = []
    if not res["ok"]:
        problems.append({"kind": "tlc-error", "errors": res["errors"][:5], "sig": "serialization/model", "out": res["out"]})
    vecs = os.path.join(wd, "vec.ndjson")
    n = 0
    sample = []
    with open(vecs, "w") as o:
        for p in vlib.tlc_lines(res["out"], "VEC"):
            line = json.loads(p)
            o.write(line + "\n")
            n += 1
            if n in (3, 400, 4000):
                v = json.loads(line)
                v["cuts"] = v["cuts"][:6]
                sample.append(v)
    import subprocess
    r = subprocess.run([vlib.BIN, "serial", "--vectors", vecs], stdout=subprocess.PIPE, stderr=subprocess.PIPE, text=True)
    rep = {"vectors": 0, "checks": 0, "failed": 0, "failures": []}
    if r.returncode != 0:
        crumb = ""
        if os.path.exists(vecs + ".last"):
            crumb = open(vecs + ".last").read()
        cls = crumb.split(" ")[0] if crumb else "unknown"
        problems.append({"kind": "parser-abort", "input": crumb, "stderr": r.stderr[-600:], "sig": f"serialization/abort/{cls}"})
    else:
        rep = json.loads(r.stdout.strip().splitlines()[-1])
        by_class = {}
        for f in rep["failures"]:
            by_class.setdefault(f["class"], f)
        for cls, f in by_class.items():
            problems.append({"kind": "vector-failed", "class": cls, "input": f["input"], "detail": f["detail"],
                             "sig": f"serialization/{cls}"})
    totals = {"trace_states": res["states"], "trace_transitions": res["transitions"], "leaves_reached": rep.get("vectors", 0),
              "programs": 0}
    extra = {"vectors": rep.get("vectors", 0), "checks_on_impl": rep.get("checks", 0),
             "cuts_valid": rep.get("cuts_valid", 0), "cuts_invalid": rep.get("cuts_invalid", 0),
             "malformed_strings": rep.get("malformed", 0), "exhaustive": False,
             "checker_cmd": "tlc -config Serialization.cfg Serialization.tla ; vharness serial --vectors <TLC output>"}
    spec = {"assume": ["boundary classes: seeds of every varint length, id widths {1,2,7,8,31,32,63,64}, lengths around byte and line-wrap boundaries",
                       "a cut that removes padding bytes only still decodes (to the same schedule); 'cut short' = a declared step is missing"]}
    return finish("C16", tier, t0, spec, totals, [], problems, [{"vector": v} for v in sample], known, extra_cov=extra)


def run_c09(tier):
    """DFS: the real DfsScheduler against the independently enumerated choice tree on a grid of
    iteration / step bounds, its call log against Dfs.tla, and Dfs.tla against all small trees."""
    t0 = time.time()
    vlib.build_harness()
    known = vlib.load_known()
    n = 8 if tier == "quick" else 60
    cap = 1500 if tier == "quick" else 30000
    progs = []
    for fam in ("kernel", "mutex", "mpsc", "park", "kernel_rand", "condvar"):
        progs += [dict(p, id=p["id"] + 10000 * i) for i, p in enumerate([]) ] or []
        fp = gen.family(fam, n, vlib.seed())
        for p in fp:
            p["id"] = len(progs) + 1
            progs.append(p)
    import corpus
    for p in corpus.get("corpus_deadlock")[:5]:
        p = dict(p)
        p["id"] = len(progs) + 1
        progs.append(p)
    out = os.path.join(vlib.WORK, f"run-c09-{tier}")
    meta, t_enum = vlib.run_enum(progs, out, cap=cap, extra=("--mode", "dfs"))
    by_id = {p["id"]: p for p in progs}
    problems = []
    nrun = nexec = ncmp = 0
    sample = None
    for m in meta:
        if m.get("crashed"):
            problems.append({"kind": "harness-crash", "prog": by_id[m["prog"]], "stderr": m["stderr"], "sig": "dfs/harness-crash"})
            continue
        for r in m.get("runs", []):
            nrun += 1
            W = [tuple(x) for x in r["walker"]]
            D = [tuple(x) for x in r["dfs"]]
            nexec += len(D)
            ncmp += len(W)
            cfg = f"maxiter={r['maxiter']},stepbound={r['stepbound']}"
            def bad(kind, detail):
                problems.append({"kind": "dfs-mismatch", "prog": by_id[m["prog"]], "detail": {"config": cfg, "what": detail,
                                 "walker": r["walker"][:12], "dfs": r["dfs"][:12]}, "sig": f"dfs/{kind}/" + ("iter" if r["maxiter"] is not None else "") + ("step" if r["stepbound"] is not None else "")})
            if len(set(D)) != len(D):
                bad("repeated-schedule", "a schedule was executed twice")
            if not set(D) <= set(W):
                bad("unknown-schedule", "DFS executed a schedule that is not a leaf of the choice tree")
            want = len(set(W)) if r["maxiter"] is None else min(r["maxiter"], len(set(W)))
            if len(D) != want:
                bad("wrong-count", f"{len(D)} executions, expected {want}")
            if r["maxiter"] is None and set(D) != set(W):
                bad("skipped-schedule", "a leaf of the choice tree was never executed")
            if len(set(r["seeds"])) > 1:
                bad("data-seed-varies", "executions used different data seeds")
            rn = r["rnds"]
            for a in rn:
                for b in rn:
                    k = min(len(a), len(b))
                    if a[:k] != b[:k]:
                        bad("data-stream-varies", "two executions drew different random values at the same position")
                        break
            if sample is None and len(D) > 2:
                sample = {"program": by_id[m["prog"]], "config": cfg, "dfs_schedules": r["dfs"][:6]}
    # call logs against Dfs.tla
    logf = os.path.join(out, "dfslog.ndjson")
    nlines = 0
    with open(logf, "w") as o:
        for i in range(len(progs)):
            pth = os.path.join(out, f"p{i}.dfslog")
            if os.path.exists(pth):
                for line in open(pth):
                    o.write(line)
                    nlines += 1
    res = vlib.run_tlc("TraceDfs", "TraceDfs.cfg", {"DFSLOG": logf}, out, workers=1, timeout=1200)
    acc = [int(x) for x in vlib.tlc_lines(res["out"], "DFSLOG-ACCEPTED")]
    if not res["ok"] or not acc or acc[0] != nlines:
        # find how far the log was explained
        problems.append({"kind": "trace-rejected", "where": "TraceDfs", "detail": {"log_lines": nlines, "states": res["states"],
                         "first_unexplained_line": res["states"], "errors": res["errors"][:3]}, "sig": "dfs/call-log-rejected"})
    states, trans = res["states"], res["transitions"]
    lem = []
    cfgs = ["Dfs", "Dfs_iter", "Dfs_step", "Dfs_iterstep"] + (["Dfs_d3a3"] if tier == "thorough" else [])
    for c in cfgs:
        wd = vlib.fresh_dir(os.path.join(vlib.WORK, "lemma-" + c))
        r = vlib.run_tlc("Dfs", c + ".cfg", {}, wd, workers=12, timeout=1500)
        states += r["states"]
        trans += r["transitions"]
        lem.append({"lemma": c, "states": r["states"], "holds": r["ok"]})
        if not r["ok"]:
            problems.append({"kind": "tlc-error", "where": c, "errors": r["errors"][:5], "sig": f"lemma/{c}", "out": r["out"]})
    totals = {"trace_states": states, "trace_transitions": trans, "leaves_reached": nexec, "programs": len(progs)}
    extra = {"dfs_runs": nrun, "dfs_executions": nexec, "walker_leaves_compared": ncmp, "call_log_lines": nlines,
             "model_lemmas": lem, "exhaustive": False,
             "checker_cmd": "tlc -config Dfs.cfg Dfs.tla ; tlc -config TraceDfs.cfg TraceDfs.tla"}
    spec = {"assume": ["choice trees measured by the independent walker scheduler under the same Config",
                       "Dfs.tla explored over all trees of depth<=4/arity<=2 (and depth<=3/arity<=3 in the thorough tier)"]}
    return finish("C09", tier, t0, spec, totals, [], problems, [sample] if sample else [{"note": "no sample"}], known, extra_cov=extra)


def run_c10(tier):
    """Random schedulers: seed determinism, per-iteration reproducibility, seed chain against an
    independent Pcg64Mcg, coverage of tiny trees, position frequencies against the uniform law."""
    import math
    t0 = time.time()
    vlib.build_harness()
    known = vlib.load_known()
    n = 6 if tier == "quick" else 40
    iters = 60 if tier == "quick" else 400
    progs = []
    for fam in ("kernel", "kernel_rand", "mutex", "condvar", "mpsc", "park"):
        for p in gen.family(fam, n, vlib.seed()):
            p = dict(p)
            p["id"] = len(progs) + 1
            progs.append(p)
    out = os.path.join(vlib.WORK, f"run-c10-{tier}")
    meta, _ = vlib.run_enum(progs, out, cap=400, extra=("--mode", "rand", "--iters", str(iters), "--seed", str(vlib.seed())))
    by_id = {p["id"]: p for p in progs}
    problems = []
    freq = {}
    ufreq = {}
    curc = {}
    nexec = repro = 0
    for m in meta:
        if m.get("crashed"):
            problems.append({"kind": "harness-crash", "prog": by_id[m["prog"]], "stderr": m["stderr"], "sig": "random/harness-crash"})
            continue
        nexec += m["execs"]
        repro += m["reproduced"]
        for pr in m["problems"]:
            problems.append({"kind": "random-scheduler", "prog": by_id[m["prog"]], "detail": pr,
                             "sig": f"random/{pr['kind']}/{pr.get('sched', 'random')}"})
        for l, pos, c in m["freq"]:
            freq[(l, pos)] = freq.get((l, pos), 0) + c
        for l, pos, c in m.get("urw_freq", []):
            ufreq[(l, pos)] = ufreq.get((l, pos), 0) + c
        for l, a, b in m["cur_chosen"]:
            x = curc.get(l, (0, 0))
            curc[l] = (x[0] + a, x[1] + b)
    # uniformity: Hoeffding bound at 1e-9 per cell
    table = []
    decisions = 0
    for l in sorted({k[0] for k in freq}):
        tot = sum(freq.get((l, p), 0) for p in range(l))
        decisions += tot
        if l < 2 or tot < 200:
            continue
        t = math.sqrt(math.log(2e9) / (2 * tot))
        for p in range(l):
            f = freq.get((l, p), 0) / tot
            table.append({"offered": l, "position": p, "n": tot, "freq": round(f, 4), "tolerance": round(t, 4)})
            if abs(f - 1.0 / l) > t:
                problems.append({"kind": "random-scheduler", "detail": {"what": "position frequency off the uniform law", "offered": l,
                                 "position": p, "freq": f, "n": tot, "tolerance": t}, "sig": f"random/non-uniform/len{l}"})
    # URW: every offered position has positive probability
    for l in sorted({k[0] for k in ufreq}):
        tot = sum(ufreq.get((l, p), 0) for p in range(l))
        if tot < 5000:
            continue
        for p in range(l):
            if ufreq.get((l, p), 0) == 0:
                problems.append({"kind": "random-scheduler", "detail": {"what": "URW never chose this offered position", "offered": l, "position": p, "n": tot},
                                 "sig": f"random/urw-position-never-chosen/len{l}"})
    for l, (a, b) in sorted(curc.items()):
        if b < 200:
            continue
        t = math.sqrt(math.log(2e9) / (2 * b))
        f = a / b
        table.append({"offered": l, "chooses_current": round(f, 4), "n": b, "tolerance": round(t, 4)})
        if abs(f - 1.0 / l) > t:
            problems.append({"kind": "random-scheduler", "detail": {"what": "bias towards/against the current task", "offered": l, "freq": f, "n": b},
                             "sig": f"random/current-bias/len{l}"})
    states = trans = 0
    lem = []
    wd = vlib.fresh_dir(os.path.join(vlib.WORK, "lemma-randomsched"))
    r = vlib.run_tlc("RandomSched", "RandomSched.cfg", {}, wd, workers=4, timeout=600)
    states += r["states"]
    trans += r["transitions"]
    lem.append({"lemma": "RandomSched seed protocol", "states": r["states"], "holds": r["ok"]})
    if not r["ok"]:
        problems.append({"kind": "tlc-error", "where": "RandomSched", "errors": r["errors"][:5], "sig": "lemma/RandomSched"})
    totals = {"trace_states": states, "trace_transitions": trans, "leaves_reached": nexec, "programs": len(progs)}
    extra = {"executions": nexec, "iterations_reproduced_from_their_seed": repro, "decisions_in_frequency_table": decisions,
             "frequency_table": table[:40], "model_lemmas": lem, "exhaustive": False,
             "checker_cmd": "tlc -config RandomSched.cfg RandomSched.tla ; vharness enum --mode rand"}
    spec = {"assume": ["uniformity and independence are measured at fixed seeds (Hoeffding bound, 1e-9 per cell), not model-checked",
                       "the documented generator is Pcg64Mcg::seed_from_u64(seed) (checked against an independent instance)"]}
    return finish("C10", tier, t0, spec, totals, [], problems, [{"frequency_rows": table[:6]}], known, extra_cov=extra)


def binom_cdf(x, n, p):
    """P(X <= x) for X ~ Binomial(n, p), summed in log space."""
    import math
    if p <= 0:
        return 1.0
    if p >= 1:
        return 1.0 if x >= n else 0.0
    lp, lq = math.log(p), math.log(1 - p)
    tot = 0.0
    for i in range(0, x + 1):
        lg = math.lgamma(n + 1) - math.lgamma(i + 1) - math.lgamma(n - i + 1) + i * lp + (n - i) * lq
        tot += math.exp(lg)
        if tot > 1:
            return 1.0
    return tot


def run_c11(tier):
    """PCT: decision logs validated with hidden priorities/change points inferred by TLC; iteration
    counts and seed determinism; hit rate of depth-d bugs against the 1/(n k^(d-1)) bound."""
    import math
    import corpus
    t0 = time.time()
    vlib.build_harness()
    known = vlib.load_known()
    n = 5 if tier == "quick" else 40
    iters = 20 if tier == "quick" else 60
    progs = []
    for fam in ("kernel", "mutex", "condvar", "park", "mpsc"):
        for p in gen.family(fam, n, vlib.seed()):
            p = dict(p)
            if len(p["tasks"]) < 2:
                continue
            p["id"] = len(progs) + 1
            progs.append(p)
    bugs = {}
    for bp, bug, d in corpus.pct_bugs():
        bp = dict(bp)
        bp["id"] = len(progs) + 1
        progs.append(bp)
        bugs[str(bp["id"])] = {"bug": bug, "depth": d, "iters": 100000 if tier == "quick" else 1000000}
    out = os.path.join(vlib.WORK, f"run-c11-{tier}")
    os.makedirs(out, exist_ok=True)
    bfile = os.path.join(vlib.WORK, f"c11-bugs-{tier}.json")
    json.dump(bugs, open(bfile, "w"))
    meta, _ = vlib.run_enum(progs, out, cap=100, extra=("--mode", "pct", "--iters", str(iters), "--seed", str(vlib.seed()), "--bugs", bfile))
    by_id = {p["id"]: p for p in progs}
    problems = []
    nexec = 0
    bugrep = []
    for m in meta:
        if m.get("crashed"):
            problems.append({"kind": "harness-crash", "prog": by_id[m["prog"]], "stderr": m["stderr"], "sig": "pct/harness-crash"})
            continue
        if m.get("bugrun"):
            nexec += m["execs"]
            nn, k, d = m["n"], max(m["k"], 1), m["depth"]
            bound = 1.0 / (nn * (k ** (d - 1)))
            rate = m["hits"] / max(1, m["iterations"])
            # exact lower binomial tail: P(X <= hits) if every iteration hit with probability `bound`
            tail = binom_cdf(m["hits"], m["iterations"], bound)
            bugrep.append({"program": m["prog"], "depth": d, "n": nn, "k": k, "bound": round(bound, 6), "hit_rate": round(rate, 6),
                           "iterations": m["iterations"], "p_value_if_at_bound": tail})
            if tail < 1e-9:
                problems.append({"kind": "pct", "prog": by_id[m["prog"]], "detail": bugrep[-1], "sig": f"pct/hit-rate-below-bound/d{d}"})
            if m["execs"] != bugs[str(m["prog"])]["iters"]:
                problems.append({"kind": "pct", "prog": by_id[m["prog"]], "detail": {"execs": m["execs"]}, "sig": "pct/iteration-count"})
            continue
        for r in m["runs"]:
            nexec += r["execs"]
            if not r["same_seed_same_run"]:
                problems.append({"kind": "pct", "prog": by_id[m["prog"]], "detail": r, "sig": "pct/same-seed-different-run"})
            if r["execs"] != iters and not r.get("refused"):
                problems.append({"kind": "pct", "prog": by_id[m["prog"]], "detail": r, "sig": "pct/iteration-count"})
    # where the change points fall (two always-runnable tasks: every preemption is a change point)
    from gen import op as _op, prog as _prog
    pos_progs = [_prog(1, "pctpos", [[_op("spawn", v=1)] + [_op("store", o=0, v=i) for i in range(1, 5)], [_op("load", o=0) for _ in range(4)]], atomics=[0]),
                 _prog(2, "pctpos", [[_op("spawn", v=1)] + [_op("fadd", o=0, v=1) for _ in range(6)], [_op("fadd", o=0, v=1) for _ in range(3)]], atomics=[0])]
    pmeta, _ = vlib.run_enum(pos_progs, os.path.join(vlib.WORK, f"run-c11pos-{tier}"), cap=100,
                             extra=("--mode", "pct", "--seed", str(vlib.seed()), "--positions", str(3000 if tier == "quick" else 40000)))
    posrep = []
    for m in pmeta:
        if m.get("crashed"):
            problems.append({"kind": "harness-crash", "prog": pos_progs[m["prog"] - 1], "stderr": m["stderr"], "sig": "pct/harness-crash"})
            continue
        nexec += m["execs"]
        posrep.append({k: m[k] for k in ("prog", "depth", "execs", "k", "expected", "observed", "max_change_points_in_one_execution")})
        if m["max_change_points_in_one_execution"] > m["depth"] - 1:
            problems.append({"kind": "pct", "prog": pos_progs[m["prog"] - 1], "detail": posrep[-1], "sig": "pct/more-than-depth-1-change-points"})
        for name, e, o in zip(("first", "last", "middle"), m["expected"], m["observed"]):
            # change points are drawn uniformly from the steps 1 .. K-1 of the running estimate K
            if e >= 40 and not (0.6 * e <= o <= 1.3 * e):
                problems.append({"kind": "pct", "prog": pos_progs[m["prog"] - 1], "detail": posrep[-1],
                                 "sig": f"pct/change-point-positions-not-uniform/{name}"})
    logf = os.path.join(out, "pctlog.ndjson")
    nlines = 0
    with open(logf, "w") as o:
        for i in range(len(progs)):
            pth = os.path.join(out, f"p{i}.pctlog")
            if os.path.exists(pth):
                for line in open(pth):
                    o.write(line)
                    nlines += 1
    res = vlib.run_tlc("TracePct", "TracePct.cfg", {"PCTLOG": logf}, out, workers=1, timeout=1500, dfs=True)
    acc = [int(x) for x in vlib.tlc_lines(res["out"], "PCTLOG-ACCEPTED")]
    if not acc or acc[0] != nlines:
        problems.append({"kind": "trace-rejected", "where": "TracePct", "detail": {"log_lines": nlines, "states": res["states"],
                         "errors": res["errors"][:3]}, "sig": "pct/decision-log-rejected"})
    # drill: the same log claimed to be depth 1 must be rejected (no change points allowed)
    drill = os.path.join(out, "pctlog-drill.ndjson")
    with open(drill, "w") as o:
        for line in open(logf):
            o.write(line.replace('"depth":3', '"depth":1').replace('"depth":2', '"depth":1'))
    dres = vlib.run_tlc("TracePct", "TracePct.cfg", {"PCTLOG": drill}, vlib.fresh_dir(os.path.join(out, "drill")), workers=1, timeout=900, dfs=True)
    dacc = [int(x) for x in vlib.tlc_lines(dres["out"], "PCTLOG-ACCEPTED")]
    totals = {"trace_states": res["states"] + dres["states"], "trace_transitions": res["transitions"] + dres["transitions"],
              "leaves_reached": nexec, "programs": len(progs)}
    extra = {"pct_executions": nexec, "decision_log_lines": nlines, "bug_hit_rates": bugrep,
             "drill_depth1_claim_rejected": not dacc, "exhaustive": False, "change_point_positions": posrep,
             "checker_cmd": "tlc -config TracePct.cfg TracePct.tla (depth-first queue)"}
    spec = {"assume": ["task ids < 16 (the shuffled part of the priority map); the insertion path for more tasks is not exercised",
                       "detection probability on the implementation is a fixed-seed measurement against the 1/(n k^(d-1)) bound"]}
    return finish("C11", tier, t0, spec, totals, [], problems, bugrep[:3] or [{"note": "no bug runs"}], known, extra_cov=extra)


def c12_programs():
    from gen import op, prog
    P = {}
    P["pass"] = prog(1, "fail", [[op("spawn", v=1), op("load", o=0), op("join", v=1)], [op("store", o=0, v=1)]], atomics=[0])
    P["panic_main"] = prog(2, "fail", [[op("spawn", v=1), op("yield"), op("panic", v=1)], [op("store", o=0, v=1)]], atomics=[0])
    P["panic_thread"] = prog(3, "fail", [[op("spawn", v=1), op("join", v=1)], [op("load", o=0), op("panic", v=2)]], atomics=[0])
    P["panic_future"] = prog(4, "fail", [[op("spawn_future", v=1), op("bo_begin"), op("await_join", v=1), op("bo_end")],
                                         [op("ayield"), op("panic", v=3)]], atomics=[0], kinds=["thread", "future"])
    P["panic_lock"] = prog(5, "fail", [[op("spawn", v=1), op("lock", o=0, w=0), op("unlock", w=0), op("join", v=1)],
                                       [op("lock", o=0, w=0), op("panic", v=4)]], nmutex=1)
    P["deadlock"] = prog(6, "fail", [[op("spawn", v=1), op("recv", o=0), op("join", v=1)], [op("yield")]], chans=[-1])
    P["maxsteps"] = prog(7, "fail", [[op("yield"), op("yield"), op("yield"), op("yield"), op("yield"), op("yield")]], maxsteps=4)
    return P


C12_MSG = {"panic_main": "boom-1", "panic_thread": "boom-2", "panic_future": "boom-3", "panic_lock": "boom-4",
           "deadlock": "deadlock! blocked tasks", "maxsteps": "exceeded max_steps bound"}


def run_c12(tier):
    """Failure persistence over histories of configured runs in one process (child processes)."""
    import re
    import shutil
    import subprocess
    from concurrent.futures import ThreadPoolExecutor
    t0 = time.time()
    vlib.build_harness()
    known = vlib.load_known()
    wd = vlib.fresh_dir(os.path.join(vlib.WORK, f"run-c12-{tier}"))
    cfg = "Failure.cfg" if tier == "quick" else "Failure3.cfg"
    res = vlib.run_tlc("Failure", cfg, {}, wd, workers=8, timeout=1200)
    hists = [json.loads(json.loads(p)) for p in vlib.tlc_lines(res["out"], "HIST")]
    if tier == "thorough":
        import random as _r
        rr = _r.Random(vlib.seed())
        three = [h for h in hists if len(h["runs"]) == 3]
        hists = [h for h in hists if len(h["runs"]) < 3] + rr.sample(three, min(len(three), 6000))
    progs = c12_programs()
    problems = []
    RE_PRINT = re.compile(r'failing schedule:\n"\n([0-9a-f\n]+)\n"')
    RE_FILE = re.compile(r"failing schedule persisted to file: (\S+)")

    def run_hist(i_h):
        i, h = i_h
        d = os.path.join(wd, f"h{i}")
        os.makedirs(d)
        runs = []
        for k, r in enumerate(h["runs"]):
            rd = os.path.join(d, f"dir{k}")
            os.makedirs(rd)
            open(os.path.join(rd, "schedule000.txt"), "w").write("old")
            runs.append({"prog": progs[r["kind"]], "persist": r["mode"], "dir": rd, "seed": 12345, "iters": 20,
                         "newthread": r["thread"] == "new"})
        sp = os.path.join(d, "spec.json")
        json.dump({"runs": runs}, open(sp, "w"))
        pr = subprocess.run([vlib.BIN, "failhist", "--spec", sp], cwd=d, stdout=subprocess.PIPE, stderr=subprocess.PIPE, text=True)
        outs = [json.loads(x) for x in pr.stdout.splitlines() if x.strip().startswith("{")]
        segs = re.split(r"@@RUN \d+ BEGIN\n", pr.stderr)[1:]
        rep = []
        for k, r in enumerate(h["runs"]):
            seg = segs[k].split(f"@@RUN {k} END")[0] if k < len(segs) else ""
            printed = RE_PRINT.findall(seg)
            files = RE_FILE.findall(seg)
            rd = os.path.join(d, f"dir{k}")
            newfiles = sorted(f for f in os.listdir(rd) if f != "schedule000.txt")
            old_ok = open(os.path.join(rd, "schedule000.txt")).read() == "old"
            o = outs[k] if k < len(outs) else {"result": "missing"}
            rep.append({"printed": printed, "files": files, "newfiles": newfiles, "old_ok": old_ok, "out": o,
                        "filedata": [open(os.path.join(rd, f)).read() for f in newfiles]})
        shutil.rmtree(d, ignore_errors=True)
        return i, h, rep, pr.returncode

    results = []
    with ThreadPoolExecutor(max_workers=12) as ex:
        for r in ex.map(run_hist, list(enumerate(hists))):
            results.append(r)
    nruns = 0
    multi = [0]
    emitted_scheds = {}
    sample = None
    for i, h, rep, rc in results:
        def bad(kind, k, detail):
            hs = " ; ".join(f"{r['mode']}/{r['kind']}/{r['thread']}" for r in h["runs"])
            problems.append({"kind": "failure-persistence", "detail": {"history": hs, "run": k, "what": detail},
                             "sig": f"failure/{kind}/" + (f"run{k}:{h['runs'][k]['mode']}:{h['runs'][k]['kind']}" if k is not None else "process")})
        if rc != 0:
            bad("process-died", None, f"exit code {rc}")
            continue
        for k, r in enumerate(h["runs"]):
            nruns += 1
            x = rep[k]
            kind, mode = r["kind"], r["mode"]
            failed = x["out"].get("result") == "failed"
            if (kind != "pass") != failed:
                bad("verdict", k, f"kind {kind} but run result {x['out']}")
                continue
            if failed and not x["out"].get("msg", "").startswith(C12_MSG[kind]):
                bad("payload", k, f"expected payload {C12_MSG[kind]!r}, got {x['out'].get('msg')!r}")
            n_emit = len(x["printed"]) + len(x["newfiles"])
            want = h["intended"][k]
            # the property asks for a schedule when persistence is enabled and for nothing when it is disabled; a
            # failure that unwinds through a scheduling point may emit a second (longer) schedule: counted, and
            # each emitted schedule has to reproduce the failure
            if (n_emit == 0) != (want == 0):
                bad("not-emitted" if n_emit < want else "emitted-although-disabled", k,
                    f"{n_emit} schedule(s) emitted, expected {want} (printed={len(x['printed'])}, files={x['newfiles']})")
                continue
            if n_emit > 1:
                multi[0] += 1
            if mode == "file" and want == 1:
                if len(x["newfiles"]) < 1 or not x["old_ok"] or x["printed"]:
                    bad("file-mode", k, f"new files {x['newfiles']}, old file intact={x['old_ok']}, printed={len(x['printed'])}")
            if mode == "print" and want == 1 and x["newfiles"]:
                bad("print-mode", k, f"files written in print mode: {x['newfiles']}")
            em = x["printed"] + x["filedata"]
            for j, sch in enumerate(em):
                # the schedule emitted last is the one the failure was reported with
                key = (kind, sch.strip(), j == len(em) - 1)
                emitted_scheds[key] = emitted_scheds.get(key, 0) + 1
            if sample is None and want == 1:
                sample = {"history": h["runs"], "run": k, "emitted": (x["printed"] + x["filedata"])[0][:120]}
    # every emitted schedule reproduces the failure it was emitted for
    nrep = 0
    for (kind, sch, is_last), cnt in emitted_scheds.items():
        d = vlib.fresh_dir(os.path.join(wd, "replay"))
        sp = os.path.join(d, "spec.json")
        json.dump({"runs": [{"prog": progs[kind], "persist": "none", "replay": sch}]}, open(sp, "w"))
        pr = subprocess.run([vlib.BIN, "failhist", "--spec", sp], cwd=d, stdout=subprocess.PIPE, stderr=subprocess.PIPE, text=True)
        outs = [json.loads(x) for x in pr.stdout.splitlines() if x.strip().startswith("{")]
        nrep += 1
        if not outs or outs[0].get("result") != "failed" or not outs[0].get("msg", "").startswith(C12_MSG[kind]):
            problems.append({"kind": "failure-persistence",
                             "detail": {"what": "the emitted schedule does not reproduce the failure" if is_last else
                                        "an additional, earlier emitted schedule (printed by the panic hook) does not reproduce the failure",
                                        "kind": kind, "schedule": sch, "replay": outs[:1]},
                             "sig": f"failure/replay-differs/{kind}" if is_last else f"failure/extra-schedule-not-replayable/{kind}"})
    # ---- portfolio runs: fail exactly when a member does (Portfolio.tla enumerates the configurations)
    from gen import op as _op, prog as _prog
    race = _prog(8, "fail", [[_op("spawn", v=1), _op("load", o=0), _op("panic_if", v=1), _op("join", v=1)], [_op("store", o=0, v=1)]], atomics=[0])
    pres = vlib.run_tlc("Portfolio", "Portfolio.cfg", {}, vlib.fresh_dir(os.path.join(wd, "portfolio-tlc")), workers=2, timeout=300)
    pvecs = [json.loads(json.loads(p)) for p in vlib.tlc_lines(pres["out"], "PORT")]
    nport = 0
    for pv in pvecs:
        nport += 1
        d = vlib.fresh_dir(os.path.join(wd, "portfolio"))
        rd = os.path.join(d, "dir")
        os.makedirs(rd)
        sp = os.path.join(d, "spec.json")
        json.dump({"runs": [{"prog": race, "persist": pv["mode"], "dir": rd, "portfolio": pv["members"], "stop_on_first": pv["stop"]}]}, open(sp, "w"))
        pr = subprocess.run([vlib.BIN, "failhist", "--spec", sp], cwd=d, stdout=subprocess.PIPE, stderr=subprocess.PIPE, text=True)
        outs = [json.loads(x) for x in pr.stdout.splitlines() if x.strip().startswith("{")]
        tag = f"{'+'.join(pv['members'])}:{pv['mode']}:{'stop' if pv['stop'] else 'all'}"
        if pr.returncode != 0 or not outs:
            problems.append({"kind": "failure-persistence", "detail": {"portfolio": tag, "what": f"process died ({pr.returncode})", "stderr": pr.stderr[-600:]},
                             "sig": "failure/portfolio/process-died"})
            continue
        failed = outs[0].get("result") == "failed"
        files = sorted(os.listdir(rd))
        if failed != pv["fails"]:
            problems.append({"kind": "failure-persistence", "detail": {"portfolio": tag, "what": f"run result {outs[0]}, members fail = {pv['fails']}"},
                             "sig": "failure/portfolio/verdict"})
        elif failed and "boom-race" not in outs[0].get("msg", ""):
            problems.append({"kind": "failure-persistence", "detail": {"portfolio": tag, "what": f"payload {outs[0].get('msg')!r}"},
                             "sig": "failure/portfolio/payload"})
        if not (pv["minemit"] <= len(files) <= pv["maxemit"]):
            problems.append({"kind": "failure-persistence", "detail": {"portfolio": tag, "what": f"{len(files)} schedule file(s), expected {pv['minemit']}..{pv['maxemit']}"},
                             "sig": "failure/portfolio/emission-count"})
        for fn in files:
            sch = open(os.path.join(rd, fn)).read()
            d2 = vlib.fresh_dir(os.path.join(wd, "portfolio-replay"))
            sp2 = os.path.join(d2, "spec.json")
            json.dump({"runs": [{"prog": race, "persist": "none", "replay": sch}]}, open(sp2, "w"))
            pr2 = subprocess.run([vlib.BIN, "failhist", "--spec", sp2], cwd=d2, stdout=subprocess.PIPE, stderr=subprocess.PIPE, text=True)
            o2 = [json.loads(x) for x in pr2.stdout.splitlines() if x.strip().startswith("{")]
            nrep += 1
            if not o2 or o2[0].get("result") != "failed" or "boom-race" not in o2[0].get("msg", ""):
                problems.append({"kind": "failure-persistence", "detail": {"portfolio": tag, "what": "emitted schedule does not reproduce the failure", "replay": o2[:1]},
                                 "sig": "failure/portfolio/replay-differs"})
    # the pinned-tree transcription must be refuted (self-check that the model can tell the difference)
    r2 = vlib.run_tlc("Failure", "Failure_pinned.cfg", {}, vlib.fresh_dir(os.path.join(wd, "pinned")), workers=4, timeout=600)
    totals = {"trace_states": res["states"] + r2["states"], "trace_transitions": res["transitions"] + r2["transitions"],
              "leaves_reached": len(results), "programs": len(progs)}
    extra = {"histories": len(results), "runs": nruns, "distinct_emitted_schedules_replayed": nrep, "runs_emitting_more_than_one_schedule": multi[0],
             "pinned_tree_model_refuted": not r2["ok"], "exhaustive": tier == "quick", "portfolio_configurations": nport,
             "checker_cmd": "tlc -config Failure.cfg Failure.tla ; vharness failhist (one child process per history)"}
    spec = {"assume": ["histories of at most 2 (quick) / 3 (thorough, sampled) runs in one process; modes None/Print/File; "
                       "kinds: pass, panic in main / thread / future / while holding a lock, deadlock, failing step bound; same or fresh OS thread",
                       "portfolio runs: up to three members (a scheduler that finds the failing schedule / one that does not), stop-on-first on and off, "
                       "persistence None / File; the same body for every member (as the API requires)"]}
    return finish("C12", tier, t0, spec, totals, [], problems, [sample] if sample else [{"note": "no emission"}], known, extra_cov=extra)


def run_lemmas(pid, problems):
    """Model-only checks (binding D) attached to a property; returns (states, transitions, report)."""
    st = tr = 0
    rep = []
    for lm in LEMMAS.get(pid, []):
        wd = vlib.fresh_dir(os.path.join(vlib.WORK, "lemma-" + lm["name"]))
        env = lm.get("env", {})
        env = env() if callable(env) else env
        res = vlib.run_tlc(lm["module"], lm["cfg"], env, wd, workers=8, timeout=900)
        st += res["states"]
        tr += res["transitions"]
        good = res["ok"] == lm.get("expect_ok", True)
        rep.append({"lemma": lm["name"], "states": res["states"], "holds": res["ok"], "as_expected": good})
        if not good:
            problems.append({"kind": "tlc-error", "where": lm["name"], "errors": res["errors"][:5],
                             "sig": f"lemma/{lm['name']}", "out": res["out"]})
    return st, tr, rep


def replay_lemma_programs():
    """Tiny programs for the Replay.tla product (written with every field the specification reads)."""
    from gen import op, prog
    path = os.path.join(vlib.WORK, "replay-lemma.ndjson")
    os.makedirs(vlib.WORK, exist_ok=True)
    P = [prog(1, "replay", [[op("spawn", v=1), op("rand"), op("lock", o=0, w=0), op("ginc", w=0), op("unlock", w=0), op("join", v=1)],
                            [op("lock", o=0, w=0), op("rand"), op("unlock", w=0), op("store", o=0, v=2)]], nmutex=1, atomics=[0]),
         prog(2, "replay", [[op("spawn", v=1), op("lock", o=0, w=0), op("lock", o=1, w=1), op("unlock", w=1), op("unlock", w=0)],
                            [op("lock", o=1, w=0), op("lock", o=0, w=1), op("panic", v=3)]], nmutex=2, atomics=[0])]
    vlib.write_ndjson(path, P)
    return path


LEMMAS = {
    "C01": [{"name": "replay-determines-execution", "module": "Replay", "cfg": "Replay.cfg",
             "env": lambda: {"PROGS": replay_lemma_programs(), "BROKEN": "none"}}],
}
# anti-vacuity: deliberately broken variants must be refuted (run by `vcheck setup`)
SELFTESTS = [
    {"name": "randomsched-mutant-no-reseed", "module": "RandomSched", "cfg": "RandomSched_mut1.cfg", "expect_ok": False, "env": {}},
    {"name": "randomsched-mutant-data-seed", "module": "RandomSched", "cfg": "RandomSched_mut2.cfg", "expect_ok": False, "env": {}},
    {"name": "dfs-mutant-last-flag", "module": "Dfs", "cfg": "Dfs_mut1.cfg", "expect_ok": False, "env": {}},
    {"name": "dfs-mutant-no-truncate", "module": "Dfs", "cfg": "Dfs_mut2.cfg", "expect_ok": False, "env": {}},
    {"name": "replay-broken-skip-same", "module": "Replay", "cfg": "Replay.cfg", "expect_ok": False,
     "env": lambda: {"PROGS": replay_lemma_programs(), "BROKEN": "skip_same"}},
    {"name": "replay-broken-no-marker", "module": "Replay", "cfg": "Replay.cfg", "expect_ok": False,
     "env": lambda: {"PROGS": replay_lemma_programs(), "BROKEN": "no_marker"}},
]


def run_property(pid, tier):
    if pid == "C16":
        return run_c16(tier)
    if pid == "C09":
        return run_c09(tier)
    if pid == "C10":
        return run_c10(tier)
    if pid == "C11":
        return run_c11(tier)
    if pid == "C12":
        return run_c12(tier)
    if pid == "C19":
        import wrapchecks
        return wrapchecks.run_c19(tier)
    if pid == "C20":
        import wrapchecks
        return wrapchecks.run_c20(tier)
    if pid not in SHUTTLE_PROPS:
        raise vlib.ToolError(f"no check registered for {pid}")
    t0 = time.time()
    vlib.build_harness()
    spec = SHUTTLE_PROPS[pid]
    known = vlib.load_known()
    DEADLINE[0] = None if tier == "quick" else time.time() + float(os.environ.get("VERIF_THOROUGH_BUDGET_S", "600"))
    cap = 4000 if tier == "quick" else 8000
    totals = {}
    problems = []
    samples = []
    fams = []
    def run_stage(st):
        n = st[tier]
        progs = stage_programs(st["fam"], n)
        if not progs:
            return None
        smp = st["sample"][0 if tier == "quick" else 1] if st.get("sample") else None
        pbv = st.get("pb_quick", st.get("pb")) if tier == "quick" else st.get("pb")
        pcap = cap if pbv is None else (25000 if tier == "quick" else 40000)
        if st.get("clock"):
            pcap = 1500 if tier == "quick" else 4000
        return progs, cached_pipeline(st["fam"], progs, tier, pcap, st["mc"], sample=smp, pb=pbv, clock=bool(st.get("clock")))

    # stages are independent (own output directory each): run a few side by side, report in table order
    from concurrent.futures import ThreadPoolExecutor
    with ThreadPoolExecutor(max_workers=int(os.environ.get("VERIF_STAGE_JOBS", "4"))) as ex:
        results = list(ex.map(run_stage, spec["stages"]))
    for st, res in zip(spec["stages"], results):
        if res is None:
            continue
        progs, r = res
        fams.append(r["summary"])
        for k, v in r["summary"].items():
            if isinstance(v, (int, float)) and k not in ("wall",) and not k.startswith("t_"):
                totals[k] = totals.get(k, 0) + v
        for pr in r["problems"]:
            if pr["kind"] in spec.get("kinds", OWN_KINDS) and owned(pid, pr):
                problems.append(pr)
        if r.get("sample"):
            samples.append({"family": st["fam"], "program": progs[-1], "trace": r["sample"]})
    lst, ltr, lrep = run_lemmas(pid, problems)
    totals["mc_states"] = totals.get("mc_states", 0) + lst
    totals["mc_transitions"] = totals.get("mc_transitions", 0) + ltr
    return finish(pid, tier, t0, spec, totals, fams, problems, samples, known,
                  extra_cov={"model_lemmas": lrep} if lrep else None)


def finish(pid, tier, t0, spec, totals, fams, problems, samples, known, extra_cov=None):
    violations = 0
    known_hit = []
    rdir = os.path.join(vlib.WORK, "replays")
    os.makedirs(rdir, exist_ok=True)
    seen_sig = set()
    for pr in problems:
        k = match_known(pid, pr["sig"], known)
        if k:
            if k["sig"] not in known_hit:
                known_hit.append(k["sig"])
                print(f"KNOWN-FINDING: property={pid} {k['sig']} -- {k['what']}")
            continue
        if pr["sig"] in seen_sig:
            continue
        seen_sig.add(pr["sig"])
        violations += 1
        rp = os.path.join(rdir, f"{pid}-{violations}.json")
        with open(rp, "w") as f:
            json.dump({"property": pid, "problem": pr}, f, indent=1)
        print(fmt_problem(pr), file=sys.stderr)
        print(f"VIOLATION property={pid} replay={rp}")
    cov = {"states": int(totals.get("trace_states", 0) + totals.get("mc_states", 0)),
           "transitions": int(totals.get("trace_transitions", 0) + totals.get("mc_transitions", 0)),
           "traces_validated_against_impl": int(totals.get("leaves_reached", 0)),
           "programs": int(totals.get("programs", 0)),
           "executions_enumerated": int(totals.get("executions", 0)),
           "trie_nodes": int(totals.get("trie_nodes", 0)),
           "leaves": int(totals.get("leaves", 0)),
           "spec_outcomes": int(totals.get("spec_outcomes", 0)),
           "impl_outcomes": int(totals.get("impl_outcomes", 0)),
           "outcomes_missing_in_spec": int(totals.get("outcomes_missing_in_spec", 0)),
           "replays_compared": int(totals.get("replays", 0)),
           "exhaustive": totals.get("capped", 0) == 0 and not totals.get("replays", 0),
           "programs_capped": int(totals.get("capped", 0)),
           "families": fams,
           "known_findings_hit": known_hit,
           "samples": samples[:4],
           "checker_cmd": "tlc -config TraceShuttle.cfg TraceShuttle.tla ; tlc -config MCShuttle.cfg MCShuttle.tla"}
    if extra_cov:
        cov.update(extra_cov)
    vlib.write_evidence(pid, tier, "model_checking", cov, spec["assume"], time.time() - t0, violations)
    log(f"{pid} {tier}: {violations} violation(s), {len(known_hit)} known finding(s), "
        f"{cov['traces_validated_against_impl']} traces validated, {cov['states']} states, {time.time()-t0:.0f}s")
    return 1 if violations else 0


def replay(path):
    d = json.load(open(path))
    pr = d["problem"]
    if d.get("property") in ("C09", "C10", "C11", "C12", "C16"):
        # these checks are deterministic for a fixed seed: the violation is reproduced by running the check again
        # (evidence files are left alone)
        print(json.dumps({k: pr[k] for k in ("kind", "sig", "detail") if k in pr}, indent=1)[:3000])
        os.environ["VERIF_NO_EVIDENCE"] = "1"
        return run_property(d["property"], os.environ.get("VERIF_TIER", "quick"))
    if "prog" not in pr:
        print(json.dumps(pr, indent=1))
        return 2
    if d.get("wrapper"):
        import wrapchecks
        vlib.build_wrap()
        module = "TraceLocks" if pr["prog"].get("lang") == "locks" else "TraceTokio"
        r = wrapchecks.pipeline(pr["prog"].get("fam", "replay"), [pr["prog"]], os.path.join(vlib.WORK, "replay-wrap"), module, cap=200000)
        print(json.dumps(r["summary"]))
        for v in r["problems"]:
            print(wrapchecks.fmt_problem(v))
        return 1 if r["problems"] else 0
    vlib.build_harness()
    out = os.path.join(vlib.WORK, "replay-run")
    r = family_pipeline(pr["prog"].get("fam", "replay"), [pr["prog"]], out, cap=200000, do_mc=True)
    print(json.dumps(r["summary"]))
    for v in r["problems"]:
        print(fmt_problem(v))
    return 1 if r["problems"] else 0
