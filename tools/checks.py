"""Per-property checks built from the shared pipeline (bindings A and B of DESIGN.md section 2)."""
import json
import os
import time

import gen
import vlib
from vlib import log


def fmt_op(o):
    k = o["k"]
    if k in ("spawn", "join", "unpark", "panic"):
        return f"{k}({o['v']})"
    if k in ("lock", "try_lock", "read", "write", "try_read", "try_write"):
        return f"{k}(o{o['o']},g{o['w']})"
    if k in ("unlock", "unlock_if", "ginc", "gget"):
        return f"{k}(g{o['w']})"
    if k == "cv_wait":
        return f"cv_wait(cv{o['o']},m{o['v']},g{o['w']})"
    if k in ("yield", "spin", "sleep", "park", "nop"):
        return k
    return f"{k}(o{o['o']},v{o['v']},w{o['w']})"


def fmt_prog(p):
    objs = {k: p[k] for k in ("nmutex", "atomics", "ncv", "nrw", "chans", "sems", "barriers", "nonce") if p.get(k)}
    lines = [f"prog {p['id']} [{p['fam']}] objs={json.dumps(objs)}"]
    for i, t in enumerate(p["tasks"]):
        lines.append(f"  T{i}: " + "; ".join(fmt_op(o) for o in t))
    return "\n".join(lines)


def fmt_ev(e):
    if e["e"] == "dec":
        return f"dec run={e['run']} sp={e['sp']} cur={e['cur']} y={int(e['y'])} -> {e['ch']}"
    if e["e"] == "op":
        return f"   op t{e['t']} c{e['c']} pc{e['pc']} {e['k']} = {e['r']}" + (f" clk={e['clk']}" if "clk" in e else "")
    return json.dumps(e)


def fmt_problem(v):
    out = [f"--- {v['kind']}  sig={v['sig']}"]
    if "prog" in v:
        out.append(fmt_prog(v["prog"]))
    if v["kind"] == "trace-rejected":
        m = v["matched"]
        evs = v["events"]
        lo = max(0, m - 14)
        for i in range(lo, min(len(evs), m + 3)):
            out.append(("  ok  " if i < m else "  ??  ") + fmt_ev(evs[i]))
        out.append("  spec state before the unmatched event: " + v["spec_state"][:1800])
    for k in ("outcomes", "impl_outcomes", "errors", "detail", "stderr"):
        if k in v:
            out.append(f"  {k}: " + json.dumps(v[k])[:1500])
    return "\n".join(out)


def last_op_before(events, idx):
    for j in range(idx - 1, -1, -1):
        if events[j].get("e") == "op":
            return events[j]["k"]
    return "start"


def trace_signature(fam, diag):
    ev = diag["first_unmatched"]
    if ev is None:
        return f"{fam}/trace/accepted?"
    i = diag["matched"]
    prev = last_op_before(diag["events"], i)
    if ev["e"] == "op":
        return f"{fam}/trace/op:{ev['k']}:r={ev['r']}/after:{prev}"
    if ev["e"] == "dec":
        return f"{fam}/trace/dec/after:{prev}"
    if ev["e"] == "end":
        return f"{fam}/trace/end:{ev['v']}/after:{prev}"
    return f"{fam}/trace/{ev['e']}/after:{prev}"


def family_pipeline(fam, progs, outdir, cap=20000, do_mc=True, workers=8, max_diag=6, clock=False):
    """Run one program family through enumeration, trace-trie validation and outcome comparison."""
    t0 = time.time()
    meta, t_enum = vlib.run_enum(progs, outdir, cap=cap, clock=clock)
    by_id = {p["id"]: p for p in progs}
    problems = []
    crashed = [m for m in meta if m.get("crashed")]
    for m in crashed:
        problems.append({"kind": "harness-crash", "prog": by_id[m["prog"]], "stderr": m["stderr"],
                         "sig": f"{fam}/harness-crash"})
    nondet = [m for m in meta if m.get("nondet")]
    for m in nondet:
        problems.append({"kind": "nondeterminism", "prog": by_id[m["prog"]], "detail": m["nondet"],
                         "sig": f"{fam}/nondeterministic-offered-list"})
    execs = sum(m.get("execs", 0) for m in meta)
    reached, leaves, tres = vlib.validate_trie(outdir, workers=workers)
    if not tres["ok"]:
        problems.append({"kind": "tlc-error", "where": "TraceShuttle", "errors": tres["errors"][:5],
                         "sig": f"{fam}/tlc-error/trace", "out": tres["out"]})
    missing = sorted(leaves - reached)
    diag_done = 0
    if missing:
        nodes, parent = vlib.load_trie(outdir)
        seen_prog = set()
        for leaf in missing:
            path = vlib.path_to(nodes, parent, leaf)
            pid = nodes[path[0]]["ev"]["p"]
            if pid in seen_prog:
                continue
            seen_prog.add(pid)
            if diag_done >= max_diag:
                continue
            d = vlib.diagnose_leaf(outdir, nodes, parent, leaf, str(leaf))
            diag_done += 1
            problems.append({"kind": "trace-rejected", "prog": by_id[pid], "leaf": leaf,
                             "matched": d["matched"], "first_unmatched": d["first_unmatched"],
                             "events": d["events"], "spec_state": d["spec_state"],
                             "sig": trace_signature(fam, d)})
        for pid in sorted(seen_prog):
            pass
    summary = {"family": fam, "programs": len(progs), "executions": execs, "trie_nodes": tres.get("nodes", 0),
               "leaves": len(leaves), "leaves_reached": len(leaves & reached),
               "trace_states": tres["states"], "trace_transitions": tres["transitions"],
               "capped": sum(1 for m in meta if m.get("capped")), "t_enum": round(t_enum, 1),
               "t_trace": round(tres["wall"], 1)}
    if do_mc:
        spec_outs, mres = vlib.run_mc(os.path.join(outdir, "progs.ndjson"), outdir, workers=workers)
        if not mres["ok"]:
            problems.append({"kind": "tlc-error", "where": "MCShuttle", "errors": mres["errors"][:5],
                             "sig": f"{fam}/tlc-error/mc", "out": mres["out"]})
        impl_outs = vlib.impl_outcomes(meta)
        capped = {m["prog"] for m in meta if m.get("capped")}
        n_spec = n_impl = miss_impl = miss_spec = 0
        for pid, p in by_id.items():
            so = spec_outs.get(pid, set())
            io = impl_outs.get(pid, set())
            n_spec += len(so)
            n_impl += len(io)
            extra = io - so
            if extra:
                miss_spec += len(extra)
                problems.append({"kind": "outcome-missing-in-spec", "prog": p, "outcomes": sorted(extra)[:3],
                                 "sig": f"{fam}/outcome/impl-not-in-spec"})
            if pid not in capped:
                lost = so - io
                if lost:
                    miss_impl += len(lost)
                    problems.append({"kind": "outcome-missing-in-impl", "prog": p, "outcomes": sorted(lost)[:3],
                                     "impl_outcomes": sorted(io)[:6],
                                     "sig": f"{fam}/outcome/spec-not-in-impl"})
        summary.update({"mc_states": mres["states"], "mc_transitions": mres["transitions"],
                        "spec_outcomes": n_spec, "impl_outcomes": n_impl,
                        "outcomes_missing_in_impl": miss_impl, "outcomes_missing_in_spec": miss_spec,
                        "t_mc": round(mres["wall"], 1)})
    summary["wall"] = round(time.time() - t0, 1)
    return {"summary": summary, "problems": problems, "meta": meta}


def run_property(pid, tier):
    raise vlib.ToolError(f"no check registered for {pid}")


def replay(path):
    raise vlib.ToolError("replay not implemented yet")
