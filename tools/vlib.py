"""Shared machinery of the checks: build, enumerate, model-check, validate, compare, report."""
import hashlib
import json
import os
import re
import shutil
import subprocess
import sys
import time

VERIF = os.path.dirname(os.path.dirname(os.path.abspath(__file__)))
REPO = "/repo"
HARNESS = os.path.join(VERIF, "harness")
BIN = os.path.join(HARNESS, "target", "release", "vharness")
SPEC = os.path.join(VERIF, "spec")
WORK = os.path.join(VERIF, "work")
EVID = os.path.join(VERIF, "evidence")


class ToolError(Exception):
    pass


def log(*a):
    print(*a, file=sys.stderr, flush=True)


def seed():
    try:
        return int(os.environ.get("VERIF_SEED", "1"))
    except ValueError:
        return 1


def build_harness():
    """Always rebuild from /repo's current working tree (cargo fingerprints the path deps)."""
    lock_src = os.path.join(REPO, "Cargo.lock")
    lock_dst = os.path.join(HARNESS, "Cargo.lock")
    if not os.path.exists(lock_dst):
        shutil.copy(lock_src, lock_dst)
    env = dict(os.environ, CARGO_NET_OFFLINE="true")
    t0 = time.time()
    r = subprocess.run(["cargo", "build", "--release", "--offline"], cwd=HARNESS, env=env,
                       stdout=subprocess.PIPE, stderr=subprocess.STDOUT, text=True)
    if r.returncode != 0:
        raise ToolError("harness build failed:\n" + r.stdout[-4000:])
    return time.time() - t0


WRAP = os.path.join(VERIF, "harness-wrap")
WBIN = os.path.join(WRAP, "target", "release", "vwrap")


def build_wrap():
    """The wrapper harness (tokio / parking_lot / dashmap / collections replacements), rebuilt from /repo's working tree."""
    lock_dst = os.path.join(WRAP, "Cargo.lock")
    if not os.path.exists(lock_dst):
        shutil.copy(os.path.join(REPO, "Cargo.lock"), lock_dst)
    env = dict(os.environ, CARGO_NET_OFFLINE="true")
    t0 = time.time()
    r = subprocess.run(["cargo", "build", "--release", "--offline"], cwd=WRAP, env=env,
                       stdout=subprocess.PIPE, stderr=subprocess.STDOUT, text=True)
    if r.returncode != 0:
        raise ToolError("wrapper harness build failed:\n" + r.stdout[-4000:])
    return time.time() - t0


def file_hash(path):
    h = hashlib.sha256()
    with open(path, "rb") as f:
        while True:
            b = f.read(1 << 20)
            if not b:
                break
            h.update(b)
    return h.hexdigest()[:16]


def run_wrap_enum(progs, outdir, cap=20000, jobs=8, pb=None, timeout=1800):
    fresh_dir(outdir)
    pfile = os.path.join(outdir, "in.ndjson")
    write_ndjson(pfile, progs)
    cmd = [WBIN, "enum", "--progs", pfile, "--out", outdir, "--cap", str(cap), "--jobs", str(jobs)]
    if pb is not None:
        cmd += ["--pb", str(pb)]
    t0 = time.time()
    try:
        r = subprocess.run(cmd, stdout=subprocess.PIPE, stderr=subprocess.PIPE, text=True, timeout=timeout)
    except subprocess.TimeoutExpired:
        raise ToolError("wrapper enumeration timed out")
    if r.returncode != 0:
        raise ToolError("vwrap enum failed: " + r.stderr[-2000:])
    return read_ndjson(os.path.join(outdir, "meta.ndjson")), time.time() - t0


def bin_hash():
    h = hashlib.sha256()
    with open(BIN, "rb") as f:
        while True:
            b = f.read(1 << 20)
            if not b:
                break
            h.update(b)
    return h.hexdigest()[:16]


def spec_hash():
    h = hashlib.sha256()
    for fn in sorted(os.listdir(SPEC)):
        if fn.endswith((".tla", ".cfg")):
            h.update(open(os.path.join(SPEC, fn), "rb").read())
    for fn in sorted(os.listdir(os.path.join(VERIF, "tools"))):
        if fn.endswith(".py") or fn == "vcheck":
            h.update(open(os.path.join(VERIF, "tools", fn), "rb").read())
    return h.hexdigest()[:16]


def write_ndjson(path, items):
    with open(path, "w") as f:
        for it in items:
            f.write(json.dumps(it, separators=(",", ":")) + "\n")


def read_ndjson(path):
    out = []
    with open(path) as f:
        for line in f:
            line = line.strip()
            if line:
                out.append(json.loads(line))
    return out


def fresh_dir(path):
    if os.path.isdir(path):
        shutil.rmtree(path)
    os.makedirs(path)
    return path


# ------------------------------------------------------------------ implementation side

def run_enum(progs, outdir, cap=50000, jobs=12, clock=False, timeout=1800, extra=()):
    """Enumerate the runtime's whole schedule tree for every program (independent walker), or with
    extra=("--mode","sample",...) sample it under the built-in schedulers."""
    fresh_dir(outdir)
    pfile = os.path.join(outdir, "in.ndjson")
    write_ndjson(pfile, progs)
    cmd = [BIN, "enum", "--progs", pfile, "--out", outdir, "--cap", str(cap), "--jobs", str(jobs)] + list(extra)
    if clock:
        cmd.append("--clock")
    t0 = time.time()
    try:
        r = subprocess.run(cmd, stdout=subprocess.PIPE, stderr=subprocess.PIPE, text=True, timeout=timeout)
    except subprocess.TimeoutExpired:
        raise ToolError("enumeration timed out")
    if r.returncode != 0:
        raise ToolError("harness enum failed: " + r.stderr[-2000:])
    meta = read_ndjson(os.path.join(outdir, "meta.ndjson"))
    return meta, time.time() - t0


# ------------------------------------------------------------------ TLC

TLC_JAR = "/opt/veriftools/tla/tla2tools.jar:/opt/veriftools/tla/CommunityModules-deps.jar"
RE_STATES = re.compile(r"(\d+) states generated, (\d+) distinct states found")


def run_tlc(module, cfg, env, workdir, workers=8, xmx="8g", timeout=1500, dfs=False, extra=()):
    metadir = os.path.join(workdir, "tlc-" + module)
    fresh_dir(metadir)
    # TLC makes a scratch directory under java.io.tmpdir for every run: keep it inside the (removed) metadir, not /tmp
    jopts = ["-Xss512m", "-Xmx" + xmx, "-XX:+UseParallelGC", "-Djava.io.tmpdir=" + metadir]
    if dfs:
        jopts.append("-Dtlc2.tool.queue.IStateQueue=StateDeque")
    cmd = ["timeout", str(timeout), "java"] + jopts + ["-cp", TLC_JAR, "tlc2.TLC", "-workers", str(workers),
           "-metadir", metadir, "-noGenerateSpecTE", "-config", os.path.join(SPEC, cfg)] + list(extra) + \
          [os.path.join(SPEC, module + ".tla")]
    e = dict(os.environ)
    e.update(env)
    t0 = time.time()
    outpath = os.path.join(workdir, module + ".out")
    with open(outpath, "w") as f:
        r = subprocess.run(cmd, stdout=f, stderr=subprocess.STDOUT, env=e, cwd=workdir)
    dt = time.time() - t0
    shutil.rmtree(metadir, ignore_errors=True)
    if r.returncode == 124:
        raise ToolError(f"TLC timed out on {module} after {timeout}s")
    states = trans = 0
    ok = False
    errors = []
    with open(outpath) as f:
        for line in f:
            m = RE_STATES.search(line)
            if m:
                trans, states = int(m.group(1)), int(m.group(2))
            if "Model checking completed. No error has been found." in line:
                ok = True
            if line.startswith("Error:") or "is violated" in line or "Exception" in line:
                errors.append(line.strip())
    return {"ok": ok, "states": states, "transitions": trans, "out": outpath, "errors": errors, "wall": dt,
            "rc": r.returncode}


def tlc_lines(outpath, tag):
    """Yield the payloads of PrintT(<<tag, ...>>) lines."""
    pre = '<<"' + tag + '", '
    with open(outpath) as f:
        for line in f:
            if line.startswith(pre):
                yield line[len(pre):].rstrip()[:-2]


def validate_trie(outdir, workers=8, timeout=3000, module="TraceShuttle"):
    """Binding A: returns (reached_leaf_ids, all_leaf_ids, tlc_result)."""
    trie = os.path.join(outdir, "trie.ndjson")
    leaves = set()
    n = 0
    with open(trie) as f:
        for i, line in enumerate(f, start=1):
            n += 1
            if line.startswith('{"kids":[],'):
                leaves.add(i)
    res = run_tlc(module, module + ".cfg",
                  {"PROGS": os.path.join(outdir, "progs.ndjson"), "TRIE": trie}, outdir, workers=workers,
                  timeout=timeout)
    reached = set()
    best = {}
    for p in tlc_lines(res["out"], "LEAF"):
        nid, names = p.split(", ", 1)
        nid = int(nid)
        reached.add(nid)
        vs = frozenset(x.strip().strip('"') for x in names.strip("{}").split(",") if x.strip())
        # several inference branches may reach the same leaf: the execution is explained by the cleanest one
        if nid not in best or len(vs) < len(best[nid]):
            best[nid] = vs
    res["nodes"] = n
    res["leaf_violations"] = {k: sorted(v) for k, v in best.items() if v}
    return reached, leaves, res


def load_trie(outdir):
    nodes = [None]
    with open(os.path.join(outdir, "trie.ndjson")) as f:
        for line in f:
            nodes.append(json.loads(line))
    parent = {}
    for i in range(1, len(nodes)):
        for k in nodes[i]["kids"]:
            parent[k] = i
    return nodes, parent


def path_to(nodes, parent, leaf):
    p = []
    n = leaf
    while n in parent:
        p.append(n)
        n = parent[n]
    p.reverse()
    return p  # node ids from the exec node down to the leaf


def diagnose_leaf(outdir, nodes, parent, leaf, tag, module="TraceShuttle"):
    """Re-validate a single root-to-leaf trace with per-node reporting; return the longest matched
    prefix, the first unmatched event and the specification state before it."""
    path = path_to(nodes, parent, leaf)
    d = fresh_dir(os.path.join(outdir, "diag-" + tag))
    lin = [{"kids": [2] if path else [], "ev": {"e": "root"}}]
    for i, nid in enumerate(path):
        lin.append({"kids": [i + 3] if i + 1 < len(path) else [], "ev": nodes[nid]["ev"]})
    write_ndjson(os.path.join(d, "trie.ndjson"), lin)
    shutil.copy(os.path.join(outdir, "progs.ndjson"), os.path.join(d, "progs.ndjson"))
    res = run_tlc(module, module + ".cfg",
                  {"PROGS": os.path.join(d, "progs.ndjson"), "TRIE": os.path.join(d, "trie.ndjson"), "DIAG": "1"},
                  d, workers=1, timeout=300)
    best = 1
    state = ""
    for p in tlc_lines(res["out"], "AT"):
        m = re.match(r"(\d+), (.*)$", p, re.S)
        if m and int(m.group(1)) >= best:
            best = int(m.group(1))
            state = m.group(2)
    events = [nodes[n]["ev"] for n in path]
    matched = best - 1  # number of events consumed
    first_bad = events[matched] if matched < len(events) else None
    return {"events": events, "matched": matched, "first_unmatched": first_bad, "spec_state": state[:3000],
            "tlc_errors": res["errors"][:5]}


def diagnose_invariant(outdir, nodes, parent, leaf, name):
    """Find the first event of the trace to `leaf` after which invariant `name` is violated on the surviving
    branch: validate growing prefixes of the single trace (binary search over prefix length)."""
    path = path_to(nodes, parent, leaf)

    def bad(k):
        d = fresh_dir(os.path.join(outdir, "diaginv"))
        lin = [{"kids": [2], "ev": {"e": "root"}}]
        for i, nid in enumerate(path[:k]):
            lin.append({"kids": [i + 3] if i + 1 < k else [], "ev": nodes[nid]["ev"]})
        write_ndjson(os.path.join(d, "trie.ndjson"), lin)
        shutil.copy(os.path.join(outdir, "progs.ndjson"), os.path.join(d, "progs.ndjson"))
        res = run_tlc("TraceShuttle", "TraceShuttle.cfg",
                      {"PROGS": os.path.join(d, "progs.ndjson"), "TRIE": os.path.join(d, "trie.ndjson")}, d, workers=1, timeout=300)
        vs = None
        for p in tlc_lines(res["out"], "LEAF"):
            nid, names = p.split(", ", 1)
            cur = [x.strip().strip('"') for x in names.strip("{}").split(",") if x.strip()]
            if vs is None or len(cur) < len(vs):
                vs = cur
        return vs is not None and name in vs

    lo, hi = 1, len(path)
    while lo < hi:
        mid = (lo + hi) // 2
        if bad(mid):
            hi = mid
        else:
            lo = mid + 1
    return lo


def run_mc(progs_file, workdir, workers=8, timeout=1500):
    """Binding B/D: outcome sets of the specification, per program id."""
    res = run_tlc("MCShuttle", "MCShuttle.cfg", {"PROGS": progs_file}, workdir, workers=workers, timeout=timeout)
    outs = {}
    for p in tlc_lines(res["out"], "OUT"):
        # payload is a TLA+ string literal holding JSON
        s = json.loads(p)
        o = json.loads(s)
        unf = [i for i, r in enumerate(o["ret"]) if not r]
        key = canon_outcome(o["obs"], o["v"], unf)
        outs.setdefault(o["p"], {}).setdefault(key, o["w"])
    return outs, res


def run_directed(progs_file, idx, witness, timeout=120):
    """Binding C: follow a specification interleaving in the real runtime."""
    cmd = [BIN, "directed", "--progs", progs_file, "--idx", str(idx), "--witness", json.dumps(witness)]
    try:
        r = subprocess.run(cmd, stdout=subprocess.PIPE, stderr=subprocess.PIPE, text=True, timeout=timeout)
    except subprocess.TimeoutExpired:
        raise ToolError("directed replay timed out")
    if r.returncode != 0:
        raise ToolError("directed replay failed: " + r.stderr[-1500:])
    return json.loads(r.stdout.strip().splitlines()[-1])


def divergence_signature(rep):
    d = rep.get("divergence")
    if d is None:
        return "followed-to-different-outcome" if rep.get("followed") else "witness-not-exhausted"
    if d["kind"] == "ran-ahead":
        # the running task completed `this` although the witness needed another task's step first:
        # the runtime offers no choice between the task's previous step and `this`
        return f"no-scheduling-point-before({d['this']})"
    if d["kind"] == "not-offered":
        return f"needed-task-not-offered(pc{d['want'][1]})"
    return d["kind"]


def canon_outcome(obs, v, unf):
    return json.dumps({"obs": obs, "v": v, "unf": unf}, separators=(",", ":"), sort_keys=True)


def impl_outcomes(meta):
    outs = {}
    for m in meta:
        if m.get("crashed"):
            continue
        s = set()
        for o in m["outcomes"]:
            s.add(canon_outcome(o["obs"], o["v"], o["unf"]))
        outs[m["prog"]] = s
    return outs


# ------------------------------------------------------------------ findings / evidence

def load_known():
    p = os.path.join(VERIF, "known_findings.json")
    if not os.path.exists(p):
        return {"open": [], "fixed": []}
    return json.load(open(p))


def write_evidence(pid, tier, level, coverage, assumptions, wall, violations):
    if os.environ.get("VERIF_NO_EVIDENCE"):
        return
    os.makedirs(EVID, exist_ok=True)
    ev = {"property_id": pid, "tier": tier, "seed": seed(), "level": level, "coverage": coverage,
          "assumptions": assumptions, "wall_s": round(wall, 2), "violations": violations}
    with open(os.path.join(EVID, pid + ".json"), "w") as f:
        json.dump(ev, f, indent=1)
    return ev
