SPECIFICATION Spec
INVARIANT ReplayNeverRefuses
INVARIANT ReplayEqualsOriginal
CHECK_DEADLOCK FALSE
