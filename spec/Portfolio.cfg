SPECIFICATION Spec
CONSTANT MaxMembers = 3
INVARIANT Emit
CHECK_DEADLOCK FALSE
