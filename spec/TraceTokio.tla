----------------------------- MODULE TraceTokio -----------------------------
(***************************************************************************)
(* Validates the executions of tokio-wrapper programs against Tokio.tla.   *)
(* The harness logs every operation at its call and at its return (plus    *)
(* task ends and how the run ended); the linearization points in between   *)
(* are the specification's own internal steps (Lin).  An execution is      *)
(* accepted iff some placement of them explains every result, and          *)
(*   - a run that ends normally has every task finished,                   *)
(*   - a reported deadlock is one in the reference model too: no pending   *)
(*     operation of a blocked task can take effect (a lost notification,   *)
(*     a capacity slot that was never given back, ... show up here),       *)
(*   - no run panics.                                                      *)
(***************************************************************************)
EXTENDS Naturals, Integers, Sequences, FiniteSets, TLC, Json, IOUtils, Tokio

ProgsIn == ndJsonDeserialize(IOEnv.PROGS)
Nodes == ndJsonDeserialize(IOEnv.TRIE)
Diag == "DIAG" \in DOMAIN IOEnv /\ IOEnv.DIAG = "1"
Range(f) == {f[i] : i \in DOMAIN f}

VARIABLES node, S
vars == <<node, S>>

ProgIdx(pid) == CHOOSE i \in 1..Len(ProgsIn) : ProgsIn[i].id = pid
Tasks(s) == 0..(s.n - 1)
Pending(s) == {t \in Tasks(s) : s.st[t+1] \in {"called", "queued"}}
Blocked(s, t) == s.st[t+1] \in {"called", "queued"} /\ Steps(s, t) = {}

Apply(e) ==
  CASE e.e = "exec" -> S' = Init0(ProgsIn[ProgIdx(e.p)], ProgIdx(e.p))
    [] e.e = "start" -> S' = S
    [] e.e = "call" -> /\ S.st[e.t+1] = "idle" /\ ~S.fin[e.t+1]
                       /\ S' = Register([S EXCEPT !.pend[e.t+1] = [k |-> e.k, o |-> e.o, v |-> e.v], !.st[e.t+1] = "called"], e.t)
    [] e.e = "ret" -> /\ S.st[e.t+1] = "done" /\ S.res[e.t+1] = e.r
                      /\ S' = [S EXCEPT !.st[e.t+1] = "idle", !.pend[e.t+1] = NoOp]
    [] e.e = "fin" -> S.st[e.t+1] = "idle" /\ S' = [S EXCEPT !.fin[e.t+1] = TRUE]
    \* the future of an aborted task was dropped (at an await point: a pending operation has not completed)
    \* (its effects - see CancelLin - may have become visible to other tasks before this is logged)
    [] e.e = "cancel" -> \/ e.t \in S.gone /\ S' = S
                         \/ e.t \in S.ab /\ ~S.fin[e.t+1] /\ S.st[e.t+1] \in {"idle", "called", "queued"}
                            /\ \E s2 \in Cancelled(S, e.t) : S' = [s2 EXCEPT !.gone = @ \cup {e.t}]
    [] e.e = "end" ->
         /\ CASE e.v = "ok" -> \A t \in Tasks(S) : S.fin[t+1] \/ (t \in S.ab /\ S.st[t+1] = "idle")
              \* the tasks named are the unfinished ones, and none of them can make progress in the model
              [] e.v = "deadlock" ->
                   \* (the main task joins the others after its own body: it is always among the blocked ones)
                   \* (a task aborted before it ever ran, or between two operations, is simply gone)
                   LET U == {t \in Tasks(S) \ {0} : ~S.fin[t+1] /\ ~(t \in S.ab /\ S.st[t+1] = "idle")} IN
                   /\ Range(e.bl) = U \cup {0}
                   /\ \A t \in U : Blocked(S, t)
                   /\ IF S.fin[1] THEN U # {} ELSE Blocked(S, 0)
              [] OTHER -> FALSE
         /\ S' = S

Init == node = 1 /\ S = [p |-> 0]
Next == \/ \E c \in Range(Nodes[node].kids) : node' = c /\ Apply(Nodes[c].ev)
        \* linearization: a pending operation takes (the next part of) its effect
        \/ /\ S.p # 0 /\ node' = node
           /\ \E t \in Pending(S) : S' \in Steps(S, t)
        \* the future of an aborted task is dropped at an await point
        \/ /\ S.p # 0 /\ node' = node
           /\ \E t \in S.ab : /\ ~S.fin[t+1] /\ S.st[t+1] \in {"called", "queued"}
                               /\ \E s2 \in Cancelled(S, t) : S' = [s2 EXCEPT !.gone = @ \cup {t}]
Spec == Init /\ [][Next]_vars

LeafInv == (Nodes[node].kids = <<>> => PrintT(<<"LEAF", node, {}>>))
           /\ (Diag => PrintT(<<"AT", node, ToString(S)>>))
           /\ (S.p # 0 => ModelInv(S))
=============================================================================
