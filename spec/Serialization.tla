--------------------------- MODULE Serialization ---------------------------
(***************************************************************************)
(* The schedule wire format (C16) on digit/bit/byte sequences.             *)
(*                                                                         *)
(* 64-bit quantities never become TLC integers: a seed is its base-128     *)
(* digit list (least significant first), a task id its bit list (LSB       *)
(* first, no trailing zeros; id 0 = <<>>).                                 *)
(*   string  = Wrap76(Hex(bytes))                                          *)
(*   bytes   = 0x91 . varint(width) . varint(#steps) . varint(seed) . pack *)
(*   pack    = steps as bits, LSB-first within each byte:                  *)
(*             task step = 0 followed by `width` id bits, random = 1;      *)
(*             zero-padded to #steps*(1+width) bits                        *)
(* Encode is the format, Decode the reading algorithm with every bound     *)
(* checked; TLC checks Decode(Encode(x)) = x on all boundary classes and   *)
(* evaluates which cut strings are invalid.  The vectors are then run      *)
(* through the real serialize_schedule / deserialize_schedule.             *)
(***************************************************************************)
EXTENDS Naturals, Sequences, FiniteSets, TLC, Json, SequencesExt

Max2(a, b) == IF a > b THEN a ELSE b
RECURSIVE Digits128(_)
Digits128(n) == IF n < 128 THEN <<n>> ELSE <<n % 128>> \o Digits128(n \div 128)
Varint(ds) == [i \in 1..Len(ds) |-> IF i < Len(ds) THEN ds[i] + 128 ELSE ds[i]]

IsTask(st) == st[1] = "T"
Width(steps) == LET ls == {Len(steps[i][2]) : i \in {j \in 1..Len(steps) : IsTask(steps[j])}} IN
                IF ls = {} THEN 1 ELSE Max2(1, CHOOSE m \in ls : \A x \in ls : x <= m)
PadTo(bits, w) == [i \in 1..w |-> IF i <= Len(bits) THEN bits[i] ELSE 0]
StepBits(st, w) == IF IsTask(st) THEN <<0>> \o PadTo(st[2], w) ELSE <<1>>
RECURSIVE AllBits(_, _)
AllBits(steps, w) == IF steps = <<>> THEN <<>> ELSE StepBits(Head(steps), w) \o AllBits(Tail(steps), w)
Pow2 == <<1, 2, 4, 8, 16, 32, 64, 128>>
Pack(bits, nalloc) ==
  LET nbytes == (nalloc + 7) \div 8
      B(i) == IF i <= Len(bits) THEN bits[i] ELSE 0
  IN [j \in 1..nbytes |-> B(8*j-7) + 2*B(8*j-6) + 4*B(8*j-5) + 8*B(8*j-4) + 16*B(8*j-3) + 32*B(8*j-2) + 64*B(8*j-1) + 128*B(8*j)]

Magic == 145
Encode(seed, steps) ==
  LET w == Width(steps) IN
  <<Magic>> \o Varint(Digits128(w)) \o Varint(Digits128(Len(steps))) \o Varint(seed)
            \o Pack(AllBits(steps, w), Len(steps) * (1 + w))

HexDigit == <<"0", "1", "2", "3", "4", "5", "6", "7", "8", "9", "a", "b", "c", "d", "e", "f">>
HexByte(b) == HexDigit[(b \div 16) + 1] \o HexDigit[(b % 16) + 1]
RECURSIVE HexFrom(_, _, _)
\* 38 bytes = 76 characters per line, lines joined by a newline (no trailing newline)
HexFrom(bytes, i, wrap) ==
  IF i > Len(bytes) THEN ""
  ELSE HexByte(bytes[i]) \o (IF wrap /\ i % 38 = 0 /\ i < Len(bytes) THEN "\n" ELSE "") \o HexFrom(bytes, i + 1, wrap)
ToWire(bytes) == HexFrom(bytes, 1, TRUE)
ToWireNoBreaks(bytes) == HexFrom(bytes, 1, FALSE)

-----------------------------------------------------------------------------
(* Decoding with every bound checked *)

Invalid == [ok |-> FALSE]
\* read a varint at position i: [ok, ds, next]; at most 10 bytes, the tenth at most 1
RECURSIVE ReadVar(_, _, _)
ReadVar(bytes, i, acc) ==
  IF i > Len(bytes) THEN [ok |-> FALSE]
  ELSE IF Len(acc) = 9
       THEN IF bytes[i] = 1 THEN [ok |-> TRUE, ds |-> Append(acc, bytes[i]), next |-> i + 1] ELSE [ok |-> FALSE]
       ELSE IF bytes[i] < 128 THEN [ok |-> TRUE, ds |-> Append(acc, bytes[i]), next |-> i + 1]
            ELSE ReadVar(bytes, i + 1, Append(acc, bytes[i] - 128))
\* small value of a digit list (only used for width and length, which must be small to be valid here)
RECURSIVE Val(_)
Val(ds) == IF ds = <<>> THEN 0 ELSE Head(ds) + 128 * Val(Tail(ds))
Small(ds) == Len(ds) <= 3
BitAt(bytes, base, k) == \* k-th payload bit (0-based), payload starts at byte index `base`
  (bytes[base + (k \div 8)] \div Pow2[(k % 8) + 1]) % 2
Trim(bits) == LET nz == {i \in 1..Len(bits) : bits[i] = 1} IN
              IF nz = {} THEN <<>> ELSE SubSeq(bits, 1, CHOOSE m \in nz : \A x \in nz : x <= m)
RECURSIVE ReadSteps(_, _, _, _, _, _)
ReadSteps(bytes, base, nbits, w, n, off) ==
  IF n = 0 THEN [ok |-> TRUE, steps |-> <<>>]
  ELSE IF off >= nbits THEN [ok |-> FALSE]
  ELSE IF BitAt(bytes, base, off) = 1
       THEN LET r == ReadSteps(bytes, base, nbits, w, n - 1, off + 1) IN
            IF r.ok THEN [ok |-> TRUE, steps |-> <<<<"R">>>> \o r.steps] ELSE r
       ELSE IF off + 1 + w > nbits THEN [ok |-> FALSE]
            ELSE LET id == Trim([k \in 1..w |-> BitAt(bytes, base, off + k)])
                     r == ReadSteps(bytes, base, nbits, w, n - 1, off + 1 + w) IN
                 IF r.ok THEN [ok |-> TRUE, steps |-> << <<"T", id>> >> \o r.steps] ELSE r

Decode(bytes) ==
  IF bytes = <<>> \/ bytes[1] # Magic THEN Invalid
  ELSE LET a == ReadVar(bytes, 2, <<>>) IN
       IF ~a.ok \/ ~Small(a.ds) THEN Invalid
       ELSE LET b == ReadVar(bytes, a.next, <<>>) IN
            IF ~b.ok \/ ~Small(b.ds) THEN Invalid
            ELSE LET c == ReadVar(bytes, b.next, <<>>)  w == Val(a.ds)  n == Val(b.ds) IN
                 IF ~c.ok \/ w = 0 \/ w > 64 THEN Invalid
                 ELSE LET nbits == 8 * (Len(bytes) - c.next + 1)
                          r == ReadSteps(bytes, c.next, nbits, w, n, 0) IN
                      IF n > nbits \/ ~r.ok THEN Invalid
                      ELSE [ok |-> TRUE, seed |-> c.ds, steps |-> r.steps]

-----------------------------------------------------------------------------
(* Boundary classes *)

Ones(n) == [i \in 1..n |-> 1]
HighBit(n) == [i \in 1..n |-> IF i = n THEN 1 ELSE 0]
Seeds == {<<0>>, <<1>>, <<127>>, <<0, 1>>, <<127, 127>>, <<1, 0, 1>>, <<127, 127, 127, 127>>,
          <<0, 0, 0, 0, 1>>, <<127, 127, 127, 127, 127, 127, 127, 127>>, <<0, 0, 0, 0, 0, 0, 0, 0, 1>>,
          <<127, 127, 127, 127, 127, 127, 127, 127, 127>>, <<0, 0, 0, 0, 0, 0, 0, 0, 0, 1>>,
          <<127, 127, 127, 127, 127, 127, 127, 127, 127, 1>>, <<5, 99, 3>>}
Widths == {1, 2, 7, 8, 31, 32, 63, 64}
Lens == {0, 1, 2, 3, 7, 8, 9, 37, 38, 39, 40, 75, 76, 77}
Patterns == {"ones", "high", "alt", "allR", "firstR", "lastR", "zeroid"}
StepsOf(len, w, pat) ==
  [i \in 1..len |->
     CASE pat = "ones" -> <<"T", Ones(w)>>
       [] pat = "high" -> <<"T", HighBit(w)>>
       [] pat = "alt" -> IF i % 2 = 0 THEN <<"R">> ELSE <<"T", IF i % 4 = 1 THEN Ones(w) ELSE HighBit(w)>>
       [] pat = "allR" -> <<"R">>
       [] pat = "firstR" -> IF i = 1 THEN <<"R">> ELSE <<"T", Ones(w)>>
       [] pat = "lastR" -> IF i = len THEN <<"R">> ELSE <<"T", HighBit(w)>>
       [] pat = "zeroid" -> IF i = len THEN <<"T", Ones(w)>> ELSE <<"T", <<>> >>]

\* The vectors are chosen in three stages so that TLC's workers share the evaluation.
VARIABLES stage, seed, len, wid, steps
vars == <<stage, seed, len, wid, steps>>
Init == stage = 0 /\ seed = <<>> /\ len = 0 /\ wid = 0 /\ steps = <<>>
Next == \/ stage = 0 /\ stage' = 1 /\ seed' \in Seeds /\ UNCHANGED <<len, wid, steps>>
        \/ stage = 1 /\ stage' = 2 /\ len' \in Lens /\ wid' \in Widths /\ UNCHANGED <<seed, steps>>
        \/ stage = 2 /\ stage' = 3 /\ (\E pat \in Patterns : steps' = StepsOf(len, wid, pat)) /\ UNCHANGED <<seed, len, wid>>
Spec == Init /\ [][Next]_vars

Bytes == Encode(seed, steps)
\* the format round-trips, with minimal width
RoundTrip == LET d == Decode(Bytes) IN d.ok /\ d.seed = seed /\ d.steps = steps
\* cutting the byte string after k bytes: which prefixes still hold every declared step?
CutPoints == LET n == Len(Bytes) IN {k \in 0..(n - 1) : k <= 14 \/ k >= n - 4 \/ k % 61 = 0}
CutRes(k) == LET d == Decode(SubSeq(Bytes, 1, k)) IN
             \* a valid cut removed padding only: it must decode to the very same schedule
             [k |-> k, valid |-> d.ok, same |-> IF d.ok THEN d.seed = seed /\ d.steps = steps ELSE TRUE]
Cuts == LET ord == SetToSortSeq(CutPoints, LAMBDA a, b : a < b) IN [i \in 1..Len(ord) |-> CutRes(ord[i])]
Emit == LET cs == Cuts IN
        /\ \A i \in 1..Len(cs) : cs[i].same
        /\ PrintT(<<"VEC", ToJson([seed |-> seed, steps |-> steps, str |-> ToWire(Bytes),
                                    cuts |-> [i \in 1..Len(cs) |-> <<cs[i].k, cs[i].valid>>]])>>)
Inv == stage = 3 => (RoundTrip /\ Emit)
=============================================================================
