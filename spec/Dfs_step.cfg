SPECIFICATION Spec
INVARIANT Inv
CHECK_DEADLOCK FALSE
CONSTANTS MaxDepth = 4
 MaxArity = 2
 MaxIter = 1000
 StepBound = 2
 Mut = 0
