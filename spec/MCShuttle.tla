----------------------------- MODULE MCShuttle -----------------------------
(***************************************************************************)
(* Binding B/D: every interleaving of the visible steps of each program,   *)
(* with a choice before every step (the model knows nothing about where    *)
(* the runtime places its scheduling points).  Prints one outcome line per *)
(* terminal state; all state invariants are checked on the way.            *)
(***************************************************************************)
EXTENDS Naturals, Integers, Sequences, FiniteSets, TLC, Json, IOUtils

ProgsIn == ndJsonDeserialize(IOEnv.PROGS)

INSTANCE Shuttle WITH Progs <- ProgsIn, TrackWoken <- TRUE, SpuriousWakeups <- FALSE

VARIABLES S,     \* abstract state
          hist   \* witness interleaving: <<code index, pc, "C" | "B">> per step (hidden from the fingerprint by VIEW)
vars == <<S, hist>>
View == S

Init == \E p \in 1..Len(ProgsIn) : S = InitState(p) /\ hist = <<>>

\* the task running code c has completed all of its operations (its closure returns in the same step
\* as its last operation: there is no scheduling point in between)
Returned(s, c) == \E t \in Tasks(s) : /\ s.ix[t+1] = c /\ ~s.canc[t+1]
                                        /\ s.pc[t+1] > Len(Prog(s).tasks[c+1])
                                        /\ (Len(Prog(s).tasks[c+1]) > 0 \/ s.pc[t+1] > 1)

Record(res, s, t) ==
  IF NextOp(s, t).k = "ret" THEN res.s
  ELSE [res.s EXCEPT !.obs[s.ix[t+1] + 1] = Append(@, res.r)]

\* the execution is over as soon as no task is able to progress: a merely parked task may wake
\* spuriously only while the execution is still alive
\* Steps without any effect that another task could observe (the closure returning, entering / leaving a block_on
\* section or a scope, dropping a JoinHandle) are not places where the runtime offers a choice, and none is needed:
\* the task that ran last takes them at once.
Markers == {"ret", "bo_begin", "bo_end", "scope_begin", "detach"}
Urgent(s) == IF s.cur >= 0 /\ s.cur \in Live(s) /\ Ph(s, s.cur) = "ready"
                /\ \/ NextOp(s, s.cur).k \in Markers /\ CanComplete(s, s.cur)
                   \* the result is published and the task finishes in the step in which its closure / future returns
                   \* (thread-local destructors, which may contain scheduling points, come in between and are steps of their own)
                   \* - except that a thread whose exit would end the execution while detached tasks are still unfinished
                   \*   passes a scheduling point first (thread_fn: exit_current_truncates_execution)
                   \/ /\ NextOp(s, s.cur).k = "exit" /\ CanBlock(s, s.cur)
                      \*   (the main thread always does)
                      /\ (s.fut[s.cur+1] \/ (s.cur # 0 /\ (Attached(s) \ {s.cur} # {} \/ Live(s) \ {s.cur} = {})))
             THEN {s.cur} ELSE {}
Next ==
  /\ S.panicked = ""
  /\ ~Ends(S)
  /\ \E t \in (IF Urgent(S) # {} THEN Urgent(S) ELSE Live(S)) :
       \/ /\ CanComplete(S, t)
          /\ \E v \in (IF NextOp(S, t).k = "rand" THEN 0..3 ELSE {S.rv}) :
                LET s0 == [S EXCEPT !.rv = v] IN S' = [Record(Complete(s0, t), s0, t) EXCEPT !.cur = t]
          /\ hist' = Append(hist, <<S.ix[t+1], S.pc[t+1], "C">>)
       \/ CanBlock(S, t) /\ S' = [Block(S, t) EXCEPT !.cur = t] /\ hist' = Append(hist, <<S.ix[t+1], S.pc[t+1], "B">>)
       \/ PanicKind(S, t) # "" /\ S' = [S EXCEPT !.panicked = PanicKind(S, t)] /\ hist' = Append(hist, <<S.ix[t+1], S.pc[t+1], "P">>)

Spec == Init /\ [][Next]_vars

Outcome(s, v) == [p |-> Prog(s).id, obs |-> s.obs, v |-> v,
                  ret |-> [c \in 1..NCode(s) |-> Returned(s, c - 1)], w |-> hist]

\* an execution may end here: a task panicked, or nothing can make progress
OutInv ==
  /\ (S.panicked # "" => PrintT(<<"OUT", ToJson(Outcome(S, "panic"))>>))
  /\ ((S.panicked = "" /\ Ends(S)) => PrintT(<<"OUT", ToJson(Outcome(S, Verdict(S)))>>))
SafetyInv == StateInv(S)
=============================================================================
