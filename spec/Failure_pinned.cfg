SPECIFICATION Spec
INVARIANT PinnedConforms
CHECK_DEADLOCK FALSE
CONSTANTS MaxRuns = 2
