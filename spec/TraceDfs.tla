------------------------------ MODULE TraceDfs ------------------------------
(***************************************************************************)
(* Binding A for C09: the new_execution / next_task call log of the real   *)
(* DfsScheduler (recorded by the wrapper scheduler, one run per program    *)
(* and bound configuration) must be a behaviour of the level-stack         *)
(* algorithm of Dfs.tla: every choice and every "no more executions"       *)
(* answer is compared.                                                     *)
(***************************************************************************)
EXTENDS Naturals, Integers, Sequences, FiniteSets, TLC, Json, IOUtils

Log == ndJsonDeserialize(IOEnv.DFSLOG)

VARIABLES l, levels, steps, iterations, maxiter
vars == <<l, levels, steps, iterations, maxiter>>

D == INSTANCE Dfs WITH MaxDepth <- 0, MaxArity <- 0, MaxIter <- 0, StepBound <- 0, Mut <- 0,
                       tree <- <<>>, path <- <<>>, visited <- <<>>, mode <- "idle"

Init == l = 1 /\ levels = <<>> /\ steps = 0 /\ iterations = 0 /\ maxiter = 100000000

Ev == Log[l]
Run == /\ Ev.e = "run"
       /\ levels' = <<>> /\ steps' = 0 /\ iterations' = 0 /\ maxiter' = Ev.maxiter
NewExec == /\ Ev.e = "newexec"
           /\ IF D!NewExecStops(levels, iterations, maxiter)
              THEN Ev.r = 0 /\ UNCHANGED <<levels, steps, iterations, maxiter>>
              ELSE Ev.r = 1 /\ iterations' = iterations + 1 /\ steps' = 0 /\ UNCHANGED <<levels, maxiter>>
NextTask == /\ Ev.e = "next"
            /\ D!NextTaskSafe(levels, steps, Ev.run)
            /\ Ev.ch = D!NextChoice(levels, steps, Ev.run)
            /\ levels' = D!NextLevels(levels, steps, Ev.run)
            /\ steps' = steps + 1
            /\ UNCHANGED <<iterations, maxiter>>
Next == l <= Len(Log) /\ l' = l + 1 /\ (Run \/ NewExec \/ NextTask)
Spec == Init /\ [][Next]_vars
\* acceptance: the whole log is consumed (reported position is compared with the log length)
AtEnd == (l = Len(Log) + 1) => PrintT(<<"DFSLOG-ACCEPTED", Len(Log)>>)
Progress == PrintT(<<"DFSAT", l>>)
=============================================================================
