---------------------------- MODULE TraceShuttle ----------------------------
(***************************************************************************)
(* Binding A: walks the prefix tree of all executions the real runtime     *)
(* produced for a batch of programs (DESIGN.md section 5).  Every node     *)
(* must be explained by a specification step; acceptance = every leaf is   *)
(* reached.  `dec` events delimit regions; the internal (unlogged) steps   *)
(* of the task that just ran are inferred.                                 *)
(***************************************************************************)
EXTENDS Naturals, Integers, Sequences, FiniteSets, TLC, Json, IOUtils

ProgsIn == ndJsonDeserialize(IOEnv.PROGS)
Nodes == ndJsonDeserialize(IOEnv.TRIE)
Diag == "DIAG" \in DOMAIN IOEnv /\ IOEnv.DIAG = "1"

INSTANCE Shuttle WITH Progs <- ProgsIn, TrackWoken <- TRUE, SpuriousWakeups <- TRUE
CK == INSTANCE Clocks

VARIABLES node, S,
          viol     \* names of the invariants violated so far on this branch of the current execution
vars == <<node, S, viol>>

ProgIdx(pid) == CHOOSE i \in 1..Len(ProgsIn) : ProgsIn[i].id = pid

\* ---- objects touched by an operation (for the conservative happens-before relation of Clocks.tla)
Keys(s, w) ==
  LET o == NextOp(s, w) IN
  CASE o.k \in {"lock", "try_lock"} -> {<<"m", o.o>>}
    [] o.k = "cv_wait" -> {<<"v", o.o>>, <<"m", o.v>>}
    [] o.k \in {"notify_one", "notify_all"} -> {<<"v", o.o>>}
    [] o.k \in {"read", "write", "try_read", "try_write"} -> {<<"r", o.o>>}
    [] o.k \in {"unlock", "unlock_if", "punlock", "ginc", "gget"} ->
         LET g == s.gd[w+1][o.w+1] IN IF g.k = "m" THEN {<<"m", g.o>>} ELSE IF g.k \in {"r", "w"} THEN {<<"r", g.o>>} ELSE {}
    [] o.k \in {"acquire", "try_acquire", "release", "close", "avail", "is_closed"} -> {<<"s", o.o>>}
    [] o.k \in {"load", "store", "swap", "fadd", "fsub", "fmax", "fmin", "cas", "b_load", "b_store", "fand", "for", "fxor", "fnand", "b_swap", "b_and", "b_or", "b_xor", "b_nand"} -> {<<"a", o.o>>}
    [] o.k \in {"await_flag", "set_flag", "wake_only", "reg_flag"} -> {<<"f", o.o>>}
    [] o.k \in {"send", "try_send", "recv", "try_recv", "clone_tx", "drop_tx", "drop_rx"} -> {<<"c", o.o>>}
    [] o.k = "barrier_wait" -> {<<"b", o.o>>}
    [] o.k \in OnceOps \cup LazyOps \cup {"is_completed", "sonce_done"} ->
         {<<"o", OIdx(s, w)>>} \cup (IF o.k \in OnceOps /\ o.w >= 0 THEN {<<"a", o.w>>} ELSE {})
    [] OTHER -> {}
Busy(s, t) == {w \in Live(s) \ {t} : Ph(s, w) # "ready" /\ Keys(s, w) \cap Keys(s, t) # {}}

\* ---- unlogged internal progress of the task that ran last
Step1(X) == {Block(x, x.cur) : x \in {y \in X : y.cur >= 0 /\ ~y.fin[y.cur+1] /\ CanBlock(y, y.cur)}}
Going(X) == {y \in X : y.cur >= 0 /\ ~y.fin[y.cur+1] /\ ~Terminal(Ph(y, y.cur))}
Variants(s) ==
  LET v1 == Step1({s})
      v2 == Step1(Going(v1))
      v3 == Step1(Going(v2))
      v4 == Step1(Going(v3))
  IN {s} \cup v1 \cup v2 \cup v3 \cup v4

\* the yield flag belongs to the first decision taken inside a yield-requesting operation
ExpectedY(s) ==
  /\ s.cur >= 0 /\ ~s.fin[s.cur+1] /\ s.ind[s.cur+1] = 0
  /\ \/ (Ph(s, s.cur) = "ready" /\ NextOp(s, s.cur).k \in {"yield", "spin"})
     \/ Ph(s, s.cur) = "parked"
     \/ Ph(s, s.cur) = "ypend"
     \/ (Ph(s, s.cur) = "ready" /\ NextOp(s, s.cur).k = "exit" /\ s.dty[s.cur+1])   \* a destructor yielded

Sorted(q) == \A i \in 1..(Len(q) - 1) : q[i] < q[i+1]

Dec(e) ==
  \E s1 \in Variants(S) :
     /\ ~BoundHit(s1)       \* the bound is checked before the scheduler is asked
     /\ Len(e.run) > 0 /\ Sorted(e.run)
     /\ Range(e.run) = MustOffer(s1) \cup Spurious(s1)
     /\ Range(e.sp) = Spurious(s1)
     /\ Range(e.nr) = Spurious(s1)
     /\ Range(e.det) = {t \in Range(e.run) : s1.det[t+1]}
     /\ e.cur = s1.cur
     /\ e.y = ExpectedY(s1)
     /\ \/ /\ e.ch \in Range(e.run)
           /\ S' = [s1 EXCEPT !.cur = e.ch, !.slen = @ + 1,
                              !.ind = IF s1.cur < 0 THEN @ ELSE [@ EXCEPT ![s1.cur+1] = @ + 1],
                              \* a chosen future task is polled now (unless an abort makes this poll drop it)
                              !.inpoll = IF s1.fut[e.ch+1] /\ ~MustCancel(s1, e.ch) THEN [@ EXCEPT ![e.ch+1] = TRUE] ELSE @]
        \* the scheduler returned no task: the execution stops here without failure
        \/ /\ e.ch = -1
           /\ S' = [s1 EXCEPT !.cur = -2]

Op(e) ==
  LET t == e.t IN
  /\ t = S.cur /\ ~S.fin[t+1]
  /\ \E s1 \in Variants(S) :
       /\ ~s1.fin[t+1]
       /\ e.c = s1.ix[t+1] /\ e.pc = s1.pc[t+1] /\ e.k = NextOp(s1, t).k
       /\ CanComplete(s1, t)
       \* the runtime's own schedule record has one entry per decision and per random draw so far
       /\ ("sl" \in DOMAIN e => e.sl = s1.slen)
       /\ LET res == Complete(s1, t)
              o == NextOp(s1, t)
              guard == IF o.k \in {"unlock", "unlock_if", "punlock", "ginc", "gget"} THEN s1.gd[t+1][o.w+1] ELSE NoGuard
              oix == IF o.k \in OnceOps \cup LazyOps \cup {"is_completed", "sonce_done"} THEN OIdx(s1, t) ELSE 0
              tgt == IF o.k \in {"join", "await_join", "try_join"} /\ HasChild(s1, o.v) THEN ChildId(s1, o.v) ELSE -1
          IN /\ e.r = res.r
             \* with clocks logged, the happens-before bookkeeping of Clocks.tla advances as well
             /\ S' = IF "clk" \in DOMAIN e
                     THEN [res.s EXCEPT !.hb = CK!HStep(s1.hb, s1, res.s, t, o, e.r, e.clk, guard, oix, tgt, Busy(s1, t))]
                     ELSE res.s

\* a thread-local destructor ran (logged from Drop): the first live slot of the exiting thread
Dt(e) ==
  LET t == e.t IN
  /\ t = S.cur /\ ~S.fin[t+1]
  /\ Ph(S, t) = "ready" /\ NextOp(S, t).k = "exit"
  /\ TlsLive(S, t) # <<>>
  /\ LET sl == Head(TlsLive(S, t))
         touch == Prog(S).tls_touch[sl.key + 1]
         s1 == TlsKill(S, t)
     IN /\ e.key = sl.key /\ e.val = sl.val /\ e.touch = touch
        \* the destructor may read another key: initialising it (destructed later in turn), or an error if already dead
        /\ e.tr = (IF touch >= 0 THEN TlsRead(s1, t, touch).v ELSE 0)
        /\ S' = [(IF touch >= 0 THEN TlsTouch(s1, t, touch) ELSE s1) EXCEPT
                    !.ind[t+1] = 0, !.dty[t+1] = Prog(S).tls_yield[sl.key + 1] # 0,
                    !.wk[t+1] = IF Prog(S).tls_yield[sl.key + 1] # 0 THEN TRUE ELSE @]

\* the future of an aborted task was dropped before completion (logged from its Drop)
Fdrop(e) == \E s1 \in Variants(S) : s1.canc[e.t+1] /\ s1.ix[e.t+1] = e.c /\ S' = s1

\* a lazy static's value is dropped when the execution is cleaned up
Over(s) == Ends(s) \/ BoundHit(s) \/ s.cur = -2
DropEv(e) ==
  /\ e.what = "lazy"
  /\ \E s1 \in Variants(S) :
       /\ Over(s1)
       /\ s1.once[Prog(s1).nonce + 2 + e.i + 1].st = "done" /\ e.i \notin s1.lzdropped
       /\ S' = [s1 EXCEPT !.lzdropped = @ \cup {e.i}]

Rnd(e) == S' = [S EXCEPT !.slen = @ + 1, !.rv = e.m]

End(e) ==
  \E s1 \in Variants(S) :
     \* every lazy static initialised in this execution has been dropped, every thread-local instance too
     /\ (e.v \in {"stopped"} \/ (e.v = "ok" /\ Unfinished(s1) = {}) => /\ \A i \in 0..1 : s1.once[Prog(s1).nonce + 2 + i + 1].st = "done" => i \in s1.lzdropped
                                       /\ ("tlslive" \in DOMAIN e => e.tlslive = 0))
     \* nothing a task owned (captured by its closure or living on its stack) survives the teardown of a
     \* non-failing execution, whether its tasks finished, were cut off, or never started
     \* (the one deviation the code has: an execution abandoned while a task is unwinding from a panic, see `leak`)
     \* (... and, as a consequence, every later execution of the same run on that OS thread: `degraded`)
     /\ (e.v \in {"ok", "stopped"} /\ "toklive" \in DOMAIN e) =>
           (e.toklive = 0 \/ (\E t \in Live(s1) : PanicKind(s1, t) # "") \/ "degraded" \in DOMAIN e)
     /\ CASE e.v = "ok" -> \/ (~BoundHit(s1) /\ Ends(s1) /\ Attached(s1) = {})
                            \* abandoned silently by a continue-after bound (or: finished exactly on the bound)
                            \/ (BoundHit(s1) /\ (~BoundFails(s1) \/ (Ends(s1) /\ Attached(s1) = {})))
          \* a deadlock is reported iff an attached task is unfinished; the report names every unfinished task
          [] e.v = "deadlock" -> ~BoundHit(s1) /\ Ends(s1) /\ Attached(s1) # {} /\ Range(e.bl) = Unfinished(s1)
          [] e.v = "maxsteps" -> BoundHit(s1) /\ BoundFails(s1)
          [] e.v = "stopped" -> s1 = S /\ S.cur = -2
          [] e.v = "panic" -> s1 = S /\ S.cur >= 0 /\ PanicKind(S, S.cur) # "" /\ e.pk = PanicKind(S, S.cur)
          [] OTHER -> FALSE
     \* a task that panicked reached a scheduling point in a drop handler while unwinding, and the scheduler ended the
     \* execution there: the panic is never re-raised and the task's stack is never unwound (reported as a violation)
     /\ S' = [s1 EXCEPT !.leak = e.v \in {"ok", "stopped"} /\ "toklive" \in DOMAIN e /\ e.toklive # 0]

Apply(e) == CASE e.e = "exec" -> S' = [hb |-> CK!HInit(ProgsIn[ProgIdx(e.p)])] @@ InitState(ProgIdx(e.p))
              [] e.e = "dec" -> Dec(e)
              [] e.e = "op" -> Op(e)
              [] e.e = "rnd" -> Rnd(e)
              [] e.e = "dt" -> Dt(e)
              [] e.e = "fdrop" -> Fdrop(e)
              [] e.e = "drop" -> DropEv(e)
              [] e.e = "end" -> End(e)

AllViolatedIn(s) == IF s.p = 0 THEN {} ELSE Violated(s) \cup CK!ClockViolations(s.hb)
Init == node = 1 /\ S = [p |-> 0] /\ viol = {}
Next == \E c \in Range(Nodes[node].kids) :
          /\ node' = c
          /\ Apply(Nodes[c].ev)
          \* invariants are evaluated at every step; a violation is remembered for the branch (the inference of
          \* unlogged steps may follow several branches: only those that explain the whole execution count)
          /\ viol' = (IF Nodes[c].ev.e = "exec" THEN {} ELSE viol) \cup AllViolatedIn(S')
Spec == Init /\ [][Next]_vars

\* reached leaves are reported (one line per leaf and surviving inference branch)
LeafInv == (Nodes[node].kids = <<>> => PrintT(<<"LEAF", node, viol>>))
           /\ (Diag => PrintT(<<"AT", node, ToString(S)>>))
=============================================================================
