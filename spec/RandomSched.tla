---------------------------- MODULE RandomSched ----------------------------
(***************************************************************************)
(* C10: the seed protocol of RandomScheduler / RandomDataSource with        *)
(* abstract generators: Stream(seed)[n] is the token <<seed, n>>.          *)
(*   - the data source hands out the initial seed first, afterwards the    *)
(*     next value of the data generator, and re-seeds that generator with  *)
(*     the value handed out;                                               *)
(*   - the scheduler re-seeds its choice generator with the same value at  *)
(*     every new_execution.                                                *)
(* TLC checks, for every number of choices and draws per iteration, that   *)
(* an iteration is a function of its seed alone and that a fresh scheduler *)
(* built from that seed with one iteration reproduces it, and refutes the  *)
(* variants selected by Mut (self-tests).                                  *)
(***************************************************************************)
EXTENDS Naturals, Sequences, TLC

CONSTANTS MaxIter, MaxSteps,
          Mut   \* 0: the protocol; 1: choice generator not re-seeded per execution; 2: data generator seeded differently

Tok(seed, n) == <<seed, n>>

VARIABLES iter,     \* iterations started
          seed,     \* seed of the iteration in progress
          dpos,     \* draws served in this iteration
          cseed, cpos,  \* choice generator: seed and position
          dseed,    \* data generator seed
          log       \* per iteration: [seed, draws, choices]
vars == <<iter, seed, dpos, cseed, cpos, dseed, log>>

Init == iter = 0 /\ seed = <<"init">> /\ dpos = 0 /\ cseed = <<"init">> /\ cpos = 0 /\ dseed = <<"init">> /\ log = <<>>

NewExecution ==
  /\ iter < MaxIter
  /\ LET s == IF iter = 0 THEN <<"init">> ELSE Tok(dseed, dpos + 1) IN   \* first the initial seed, then the next data value
     /\ seed' = s
     /\ dseed' = IF Mut = 2 THEN <<"other", s>> ELSE s
     /\ cseed' = IF Mut = 1 /\ iter > 0 THEN cseed ELSE s
     /\ cpos' = IF Mut = 1 /\ iter > 0 THEN cpos ELSE 0
     /\ log' = Append(log, [seed |-> s, draws |-> <<>>, choices |-> <<>>])
  /\ dpos' = 0 /\ iter' = iter + 1

Choice == /\ iter > 0 /\ Len(log[iter].choices) + Len(log[iter].draws) < MaxSteps
          /\ cpos' = cpos + 1
          /\ log' = [log EXCEPT ![iter].choices = Append(@, Tok(cseed, cpos + 1))]
          /\ UNCHANGED <<iter, seed, dpos, cseed, dseed>>
Draw ==   /\ iter > 0 /\ Len(log[iter].choices) + Len(log[iter].draws) < MaxSteps
          /\ dpos' = dpos + 1
          /\ log' = [log EXCEPT ![iter].draws = Append(@, Tok(dseed, dpos + 1))]
          /\ UNCHANGED <<iter, seed, cpos, cseed, dseed>>
Next == NewExecution \/ Choice \/ Draw
Spec == Init /\ [][Next]_vars

\* what a fresh scheduler built from seed s and one iteration produces for the same numbers of choices and draws
Fresh(s, nc, nd) == [seed |-> s, draws |-> [j \in 1..nd |-> Tok(s, j)], choices |-> [j \in 1..nc |-> Tok(s, j)]]
IterationIsFunctionOfItsSeed ==
  \A i \in 1..Len(log) : log[i] = Fresh(log[i].seed, Len(log[i].choices), Len(log[i].draws))
SeedChain ==
  \A i \in 1..(Len(log) - 1) : log[i+1].seed = Tok(log[i].seed, Len(log[i].draws) + 1)
Inv == IterationIsFunctionOfItsSeed /\ SeedChain
=============================================================================
