SPECIFICATION Spec
INVARIANT LeafInv
CHECK_DEADLOCK FALSE
