------------------------------- MODULE Replay -------------------------------
(***************************************************************************)
(* C01 at the level of the model: the record the runtime keeps (the task   *)
(* chosen at every choice, a marker at the position of every random draw,  *)
(* the data seed) determines the execution.  Product of a recording run    *)
(* and a run driven by a replay cursor with the refusals of                *)
(* ReplayScheduler (task not able to run / random expected / schedule      *)
(* ended early).  `Broken` selects deliberately wrong recorders: they must *)
(* produce a counterexample (anti-vacuity guard run by `vcheck setup`).    *)
(***************************************************************************)
EXTENDS Naturals, Integers, Sequences, FiniteSets, TLC, Json, IOUtils

ProgsIn == ndJsonDeserialize(IOEnv.PROGS)
Broken == IF "BROKEN" \in DOMAIN IOEnv THEN IOEnv.BROKEN ELSE "none"

INSTANCE Shuttle WITH Progs <- ProgsIn, TrackWoken <- TRUE, SpuriousWakeups <- FALSE

VARIABLES phase,   \* "rec" | "rep" | "done"
          S1,      \* recorded execution
          sched,   \* the record: <<"T", t>> per choice, <<"R">> per draw
          draws,   \* the data stream actually served (a function of the seed: same stream on replay)
          last,    \* task chosen last (for the broken recorder that skips repeated choices)
          S2, pos, dpos, refused
vars == <<phase, S1, sched, draws, last, S2, pos, dpos, refused>>

Init == /\ \E p \in 1..Len(ProgsIn) : S1 = InitState(p) /\ S2 = InitState(p)
        /\ phase = "rec" /\ sched = <<>> /\ draws = <<>> /\ last = -1 /\ pos = 1 /\ dpos = 1 /\ refused = ""

CanStep(s, t) == ~s.fin[t+1] /\ (CanComplete(s, t) \/ CanBlock(s, t) \/ PanicKind(s, t) # "")
StepOf(s, t, v) ==   \* the one step of t in s when the next draw is v (deterministic)
  IF PanicKind(s, t) # "" THEN [s EXCEPT !.panicked = PanicKind(s, t)]
  ELSE IF CanComplete(s, t)
       THEN LET s0 == [s EXCEPT !.rv = v]  res == Complete(s0, t) IN
            IF NextOp(s, t).k = "ret" THEN res.s ELSE [res.s EXCEPT !.obs[s.ix[t+1] + 1] = Append(@, res.r)]
       ELSE Block(s, t)
Draws(s, t) == PanicKind(s, t) = "" /\ CanComplete(s, t) /\ NextOp(s, t).k = "rand"
Over(s) == s.panicked # "" \/ Ends(s)

Rec ==
  /\ phase = "rec"
  /\ IF Over(S1)
     THEN phase' = "rep" /\ UNCHANGED <<S1, sched, draws, last, S2, pos, dpos, refused>>
     ELSE \E t \in Live(S1) :
            /\ CanStep(S1, t)
            /\ \E v \in (IF Draws(S1, t) THEN 0..1 ELSE {0}) :
                 /\ S1' = StepOf(S1, t, v)
                 /\ draws' = IF Draws(S1, t) THEN Append(draws, v) ELSE draws
                 /\ sched' = sched \o (IF Broken = "skip_same" /\ t = last THEN <<>> ELSE << <<"T", t>> >>)
                                   \o (IF Draws(S1, t) /\ Broken # "no_marker" THEN << <<"R">> >> ELSE <<>>)
            /\ last' = t
            /\ UNCHANGED <<phase, S2, pos, dpos, refused>>

Rep ==
  /\ phase = "rep" /\ refused = ""
  /\ IF Over(S2)
     THEN phase' = "done" /\ UNCHANGED <<S1, sched, draws, last, S2, pos, dpos, refused>>
     ELSE IF pos > Len(sched)
          THEN refused' = "schedule ended early" /\ UNCHANGED <<phase, S1, sched, draws, last, S2, pos, dpos>>
          ELSE LET e == sched[pos] IN
               IF e[1] = "R"
               THEN refused' = "expected context switch but next schedule step is random choice"
                    /\ UNCHANGED <<phase, S1, sched, draws, last, S2, pos, dpos>>
               ELSE LET t == e[2] IN
                    IF ~(t \in Live(S2) /\ CanStep(S2, t))
                    THEN refused' = "scheduled task is not runnable" /\ UNCHANGED <<phase, S1, sched, draws, last, S2, pos, dpos>>
                    ELSE IF Draws(S2, t)
                         THEN IF pos + 1 > Len(sched) \/ sched[pos + 1][1] # "R" \/ dpos > Len(draws)
                              THEN refused' = "expected random choice but next schedule step is context switch"
                                   /\ UNCHANGED <<phase, S1, sched, draws, last, S2, pos, dpos>>
                              ELSE /\ S2' = StepOf(S2, t, draws[dpos]) /\ pos' = pos + 2 /\ dpos' = dpos + 1
                                   /\ UNCHANGED <<phase, S1, sched, draws, last, refused>>
                         ELSE /\ S2' = StepOf(S2, t, 0) /\ pos' = pos + 1
                              /\ UNCHANGED <<phase, S1, sched, draws, last, dpos, refused>>

Next == Rec \/ Rep
Spec == Init /\ [][Next]_vars

ReplayNeverRefuses == refused = ""
ReplayEqualsOriginal == phase = "done" => (S2.obs = S1.obs /\ S2.panicked = S1.panicked /\ Live(S2) = Live(S1) /\ pos = Len(sched) + 1)
=============================================================================
