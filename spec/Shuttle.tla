------------------------------- MODULE Shuttle -------------------------------
(***************************************************************************)
(* Interpretive specification of the Shuttle runtime kernel and of the     *)
(* std-compatible primitives, over small JSON programs (DESIGN.md 3, 4).   *)
(*                                                                         *)
(* This module has no variables: it defines the abstract state as a record *)
(* `s` and every visible operation as a pair of state functions            *)
(*     CanComplete(s,t) / Complete(s,t)  - the operation takes effect and  *)
(*                                         returns (one logged step)       *)
(*     CanBlock(s,t)    / Block(s,t)     - unlogged internal progress:     *)
(*                                         enter a blocked phase, finish   *)
(* MCShuttle (all interleavings) and TraceShuttle (trace validation) put   *)
(* a Next relation on top of the same functions.                           *)
(***************************************************************************)
EXTENDS Naturals, Integers, Sequences, FiniteSets, TLC, Bitwise

CONSTANTS Progs,        \* sequence of program records (JSON)
          TrackWoken,   \* BOOLEAN: model the poll/wake credit of tasks (needed for traces only)
          SpuriousWakeups \* BOOLEAN: a parked task may return without an unpark

Range(q) == {q[i] : i \in DOMAIN q}
Max(a, b) == IF a > b THEN a ELSE b
Without(q, x) == SelectSeq(q, LAMBDA y : y # x)
InSeq(q, x) == \E i \in DOMAIN q : q[i] = x

-----------------------------------------------------------------------------
(* Program access *)

Prog(s) == Progs[s.p]
NCode(s) == Len(Prog(s).tasks)
Code(s, t) == Prog(s).tasks[s.ix[t+1] + 1]
RetOp == [k |-> "ret", o |-> 0, v |-> 0, w |-> 0]
ExitOp == [k |-> "exit", o |-> 0, v |-> 0, w |-> 0]
NextOp(s, t) == LET c == Code(s, t) IN
                IF s.pc[t+1] <= Len(c) THEN c[s.pc[t+1]]
                ELSE IF s.pc[t+1] = Len(c) + 1 THEN RetOp ELSE ExitOp
Tasks(s) == 0..(s.n - 1)
Live(s) == {t \in Tasks(s) : ~s.fin[t+1]}
\* runtime id of the task running code index v (each code index is spawned at most once)
HasChild(s, v) == \E c \in Tasks(s) : s.ix[c+1] = v
ChildId(s, v) == CHOOSE c \in Tasks(s) : s.ix[c+1] = v
\* the closure of the thread running code index v has returned (its `ret` step is done)
ClosureReturned(s, v) == HasChild(s, v) /\ s.pc[ChildId(s, v) + 1] > Len(Prog(s).tasks[v + 1]) + 1

NoGuard == [k |-> "none", o |-> 0]
NSlots == 4

InitState(p) ==
  LET P == Progs[p] IN
  [p |-> p, n |-> 1, ix |-> <<0>>, pc |-> <<1>>, ph |-> <<"ready">>, fin |-> <<FALSE>>,
   acc |-> <<0>>, retv |-> <<0>>, ind |-> <<0>>, wk |-> <<FALSE>>, xr |-> <<FALSE>>,
   tok |-> <<FALSE>>, unpk |-> <<FALSE>>, cvgot |-> << [kind |-> "n", ep |-> 0] >>, gd |-> << [i \in 1..NSlots |-> NoGuard] >>,
   cur |-> -1, slen |-> 0, rst |-> 0, panicked |-> "", rv |-> 0,
   mh |-> [m \in 1..P.nmutex |-> -1], md |-> [m \in 1..P.nmutex |-> 0], mpz |-> [m \in 1..P.nmutex |-> FALSE],
   av |-> [a \in 1..Len(P.atomics) |-> P.atomics[a]],
   cv |-> [c \in 1..P.ncv |-> [list |-> <<>>, nextE |-> 0]],
   rw |-> [r \in 1..P.nrw |-> [readers |-> {}, writer |-> -1, data |-> 0, pz |-> FALSE]],
   ch |-> [c \in 1..Len(P.chans) |-> [buf |-> <<>>, cap |-> P.chans[c], senders |-> 1, rxalive |-> TRUE,
                                       waitS |-> <<>>, waitR |-> <<>>]],
   sem |-> [x \in 1..Len(P.sems) |-> [avail |-> P.sems[x].n, fair |-> P.sems[x].fair # 0, closed |-> FALSE,
                                       q |-> <<>>, granted |-> {},
                                       held |-> 0, rel |-> 0]],      \* permits taken by completed acquisitions / added by release, so far
   bar |-> [b \in 1..Len(P.barriers) |-> [n |-> P.barriers[b], arrived |-> {}, rel |-> {}, gen |-> 0]],
   \* program-declared Once cells, then two `static` Once cells, then the hidden cells of two lazy statics
   once |-> [x \in 1..(P.nonce + 4) |-> [st |-> "idle", owner |-> -1, doneby |-> -1]],
   lzv |-> <<0, 0>>, lzdropped |-> {},
   tls |-> << <<>> >>, dty |-> <<FALSE>>, nm |-> <<-2>>, sc |-> << {} >>,
   lbl |-> <<-1>>,       \* a user label per task (current::set_label_for_task), inherited by the tasks it spawns
   \* async: hand-written waker slots, JoinHandle slots, abort / detach marks
   flg |-> [f \in 1..P.nflags |-> FALSE], fw |-> [f \in 1..P.nflags |-> -1],
   inpoll |-> <<FALSE>>, det |-> <<FALSE>>, ab |-> <<FALSE>>, canc |-> <<FALSE>>, hasres |-> <<FALSE>>, resv |-> <<0>>, jw |-> <<-1>>, fut |-> <<FALSE>>, jtaken |-> <<FALSE>>,
   \* futures sleeping in an awaited unfair acquire that a barging acquirer re-blocked (TaskState::Blocked: waker wakes
   \* no longer make them runnable); future tasks whose waker was invoked since their latest poll began
   hard |-> {}, due |-> {},
   \* the execution was abandoned while a task was unwinding from a panic (set by the trace specification at the end event)
   leak |-> FALSE,
   obs |-> [c \in 1..Len(P.tasks) |-> <<>>]]

-----------------------------------------------------------------------------
(* Small state helpers *)

Ph(s, t) == s.ph[t+1]
SetPh(s, t, p) == [s EXCEPT !.ph[t+1] = p]
\* a waker invocation: remember it (the flag is consumed by the task's next Pending)
AsyncWait == {"fwait", "jwait", "susp"}
\* a future whose awaited acquire returned Pending sleeps like in any other await: a wake buys it a (fruitless) poll
SleepsInAcquire(s, t) == s.fut[t+1] /\ s.ph[t+1] = "wait" /\ NextOp(s, t).k = "acquire"
\* every blocking lock / acquire is block_on(Acquire): the task sleeps (TaskState::Sleeping) with its own waker registered,
\* so any wake of that waker buys it a poll of the Acquire -- until a barging acquirer re-blocks it (TaskState::Blocked)
SleepsOnSem(s, t) == \/ (s.ph[t+1] = "wait" /\ NextOp(s, t).k \in {"lock", "read", "write", "acquire"})
                     \/ (s.ph[t+1] = "relockwait" /\ NextOp(s, t).k = "cv_wait")
                     \/ s.ph[t+1] = "once_wait"
WakeRaw(s, t) == IF s.fin[t+1] THEN s
              ELSE IF SleepsOnSem(s, t) /\ t \in s.hard
                   THEN [s EXCEPT !.wk[t+1] = TrackWoken]
              ELSE IF s.ph[t+1] \in AsyncWait \/ SleepsOnSem(s, t) THEN [s EXCEPT !.wk[t+1] = TrackWoken, !.xr[t+1] = TRUE]
              ELSE IF TrackWoken THEN [s EXCEPT !.wk[t+1] = TRUE] ELSE s
Wake(s, t) == LET r == WakeRaw(s, t) IN IF s.fut[t+1] /\ ~s.fin[t+1] THEN [r EXCEPT !.due = @ \cup {t}] ELSE r
WakeAll(s, T) == [s EXCEPT !.wk = [i \in DOMAIN s.wk |-> IF TrackWoken /\ (i-1) \in T /\ ~s.fin[i] THEN TRUE ELSE s.wk[i]]]
ClearXr(s, T) == [s EXCEPT !.xr = [i \in DOMAIN s.xr |-> IF (i-1) \in T THEN FALSE ELSE s.xr[i]]]
Unhard(s, T) == [s EXCEPT !.hard = @ \ T]
Harden(s, T) == [s EXCEPT !.hard = @ \cup T]
\* entering a poll-protocol wait: a stale wake credit buys one extra runnable round
EnterPollWait(s, t, p) ==
  IF TrackWoken /\ s.wk[t+1] THEN [s EXCEPT !.ph[t+1] = p, !.wk[t+1] = FALSE, !.xr[t+1] = TRUE]
  ELSE [s EXCEPT !.ph[t+1] = p, !.xr[t+1] = FALSE]
\* re-poll without progress
Repoll(s, t) == IF s.wk[t+1] THEN [s EXCEPT !.wk[t+1] = FALSE] ELSE [s EXCEPT !.xr[t+1] = FALSE]

-----------------------------------------------------------------------------
(* Mutex (API level: holder + poison flag; an unfair semaphore of one permit in the code) *)

MFree(s, m) == s.mh[m+1] = -1
\* tasks queued on mutex m: plain lock, the re-lock of a condvar wait
MutexWaiters(s, m) ==
  {t \in Live(s) : \/ (Ph(s, t) = "wait" /\ NextOp(s, t).k = "lock" /\ NextOp(s, t).o = m)
                   \/ (Ph(s, t) = "relockwait" /\ NextOp(s, t).k = "cv_wait" /\ NextOp(s, t).v = m)}
MAcquire(s, t, m) == Harden(ClearXr([s EXCEPT !.mh[m+1] = t], MutexWaiters(s, m) \ {t}), MutexWaiters(s, m) \ {t})
MRelease(s, m) == Unhard(WakeAll([s EXCEPT !.mh[m+1] = -1], MutexWaiters(s, m)), MutexWaiters(s, m))

(* RwLock *)
RFits(s, r) == s.rw[r+1].writer = -1
WFits(s, r) == s.rw[r+1].writer = -1 /\ s.rw[r+1].readers = {}
RwWaiters(s, r) == {t \in Live(s) : Ph(s, t) = "wait" /\ NextOp(s, t).k \in {"read", "write"} /\ NextOp(s, t).o = r}
RwFits(s, t) == IF NextOp(s, t).k = "read" THEN RFits(s, NextOp(s, t).o) ELSE WFits(s, NextOp(s, t).o)
RwAfterAcquire(s, t, r) == LET W == {w \in RwWaiters(s, r) \ {t} : ~RwFits(s, w)} IN Harden(ClearXr(s, W), W)
RwAfterRelease(s, r) == LET W == {w \in RwWaiters(s, r) : RwFits(s, w)} IN Unhard(WakeAll(s, W), W)

(* Condvar: signal tokens (deferred choice), oldest token consumed first *)
CvEntry(s, c, t) == LET L == s.cv[c+1].list IN L[CHOOSE i \in 1..Len(L) : L[i].t = t]
InCv(s, c, t) == \E i \in 1..Len(s.cv[c+1].list) : s.cv[c+1].list[i].t = t
HasSignal(s, c, t) == InCv(s, c, t) /\ (CvEntry(s, c, t).bc \/ CvEntry(s, c, t).toks # <<>>)
Consume(s, c, t) ==
  LET w == CvEntry(s, c, t)
      rest == SelectSeq(s.cv[c+1].list, LAMBDA x : x.t # t) IN
  IF w.bc THEN [s EXCEPT !.cv[c+1].list = rest, !.cvgot[t+1] = [kind |-> "b", ep |-> 0]]
  ELSE LET e == Head(w.toks) IN
       [s EXCEPT !.cv[c+1].list = [i \in 1..Len(rest) |-> [rest[i] EXCEPT !.toks = SelectSeq(@, LAMBDA x : x # e)]],
                 !.cvgot[t+1] = [kind |-> "s", ep |-> e]]

(* std mpsc *)
Full(c) == c.cap >= 0 /\ Len(c.buf) >= Max(c.cap, 1)
MustBlockS(c) == Full(c) \/ c.waitS # <<>> \/ (c.cap = 0 /\ c.waitR = <<>>)
HeadSEnabled(c) == IF c.cap = 0 THEN c.buf = <<>> /\ c.waitR # <<>> ELSE Len(c.buf) < c.cap
Disc(c) == c.buf = <<>> /\ c.senders = 0
\* try_recv finds nothing left over for it: rendezvous without a waiting sender; otherwise every
\* buffered message is already spoken for by an earlier blocked receiver
TryRecvEmpty(c) == IF c.cap = 0 THEN c.buf = <<>> /\ c.waitS = <<>> ELSE Len(c.waitR) >= Len(c.buf)

(* BatchSemaphore *)
SemReqOf(s, t) == NextOp(s, t).v      \* the request of a task that is inside an acquire
SemWaiters(s, x) == {s.sem[x+1].q[i].t : i \in 1..Len(s.sem[x+1].q)}
SemReq(s, x, t) == LET q == s.sem[x+1].q IN q[CHOOSE i \in 1..Len(q) : q[i].t = t].n
\* fair: grant from the head while it fits
RECURSIVE GrantFront(_)
GrantFront(sm) ==
  IF sm.q # <<>> /\ Head(sm.q).n <= sm.avail
  THEN GrantFront([sm EXCEPT !.q = Tail(@), !.avail = @ - Head(sm.q).n, !.granted = @ \cup {Head(sm.q).t}])
  ELSE sm
SemAfterAcquire(s, t, x) ==   \* unfair: waiters that no longer fit lose their extra round
  IF s.sem[x+1].fair THEN s
  ELSE LET W == {w \in SemWaiters(s, x) \ {t} : SemReq(s, x, w) > s.sem[x+1].avail} IN
       Harden(ClearXr(s, W), W)
SemRelease(s, x, n) ==
  LET sm0 == [s.sem[x+1] EXCEPT !.avail = @ + n, !.rel = @ + n] IN
  IF sm0.fair
  THEN LET sm1 == GrantFront(sm0) IN WakeAll([s EXCEPT !.sem[x+1] = sm1], sm1.granted \ sm0.granted)
  ELSE LET W == {w \in SemWaiters(s, x) : SemReq(s, x, w) <= sm0.avail} IN
       Unhard(WakeAll([s EXCEPT !.sem[x+1] = sm0], W), W)

(* Once: the race is decided on an internal mutex (owner); completion is recorded before it is released.
   The same protocol runs for `static` Once cells and under the first access to a lazy static. *)
OnceOps == {"call_once", "sonce"}
LazyOps == {"lz_fadd", "lz_load"}
OIdx(s, t) == LET o == NextOp(s, t) IN
              IF o.k = "sonce" \/ o.k = "sonce_done" THEN Prog(s).nonce + o.o
              ELSE IF o.k \in LazyOps THEN Prog(s).nonce + 2 + o.o ELSE o.o
OnceWaiters(s, x) == {t \in Live(s) : Ph(s, t) = "once_wait" /\ OIdx(s, t) = x}
OnceAcquire(s, t, x) == Harden(ClearXr([Unhard(s, {t}) EXCEPT !.ph[t+1] = "once_in", !.once[x+1].owner = t, !.xr[t+1] = FALSE], OnceWaiters(s, x) \ {t}),
                               OnceWaiters(s, x) \ {t})
OnceRelease(s, x) == Unhard(WakeAll([s EXCEPT !.once[x+1].owner = -1], OnceWaiters(s, x)), OnceWaiters(s, x))

(* Thread-locals: per task, slots in initialisation order; `live` slots are destructed in that order at
   thread exit; a destructed slot stays behind as a tombstone (access = error, never re-initialised) *)
TlsIdx(s, t, k) == {i \in 1..Len(s.tls[t+1]) : s.tls[t+1][i].key = k}
TlsLive(s, t) == SelectSeq(s.tls[t+1], LAMBDA x : x.live)
TlsRead(s, t, k) ==   \* value seen by an access to key k (lazily initialised to 100 + k), -7 = access error
  IF TlsIdx(s, t, k) = {} THEN [v |-> 100 + k]
  ELSE LET sl == s.tls[t+1][CHOOSE i \in TlsIdx(s, t, k) : TRUE] IN IF sl.live THEN [v |-> sl.val] ELSE [v |-> -7]
TlsTouch(s, t, k) ==  \* an access initialises the slot if this thread has never had one
  IF TlsIdx(s, t, k) = {} THEN [s EXCEPT !.tls[t+1] = Append(@, [key |-> k, live |-> TRUE, val |-> 100 + k])] ELSE s
TlsWrite(s, t, k, v) == LET i == CHOOSE j \in TlsIdx(s, t, k) : TRUE IN [s EXCEPT !.tls[t+1][i].val = v]
TlsKill(s, t) ==      \* the first live slot is destructed
  LET i == CHOOSE j \in 1..Len(s.tls[t+1]) : s.tls[t+1][j].live /\ \A h \in 1..(j-1) : ~s.tls[t+1][h].live IN
  [s EXCEPT !.tls[t+1][i].live = FALSE]

\* between two polls of a future task (never polled yet, or Pending): here an abort takes effect
AtPollBoundary(s, t) ==
  /\ s.fut[t+1] /\ ~s.inpoll[t+1]
  /\ \/ (Ph(s, t) = "ready" /\ s.pc[t+1] = 1)
     \/ Ph(s, t) \in {"ypend", "fwait", "jwait", "susp"}
     \/ (Ph(s, t) = "wait" /\ NextOp(s, t).k = "acquire")
MustCancel(s, t) == s.ab[t+1] /\ ~s.canc[t+1] /\ AtPollBoundary(s, t)
\* the first poll of a spawned future begins (an abort arriving later in this poll takes effect at the next one)
StartsPoll(s, t) == s.fut[t+1] /\ ~s.inpoll[t+1] /\ ~s.ab[t+1] /\ Ph(s, t) = "ready" /\ s.pc[t+1] = 1
\* an aborted task sleeping in an async acquire was woken by the abort (the wake made it runnable)
MustCancelWake(s, t) == s.ab[t+1] /\ ~s.canc[t+1] /\ s.fut[t+1] /\ s.xr[t+1]

-----------------------------------------------------------------------------
(* Diagnosed misuse: the operation panics instead of blocking forever *)

PanicKind(s, t) ==
  LET o == NextOp(s, t) IN
  IF Ph(s, t) # "ready" THEN ""
  ELSE CASE o.k = "panic" -> "boom"
         [] o.k = "lock" /\ s.mh[o.o+1] = t -> "reentrant-mutex"
         [] o.k \in {"read", "write"} /\ (s.rw[o.o+1].writer = t \/ t \in s.rw[o.o+1].readers) -> "reentrant-rwlock"
         [] OTHER -> ""

-----------------------------------------------------------------------------
(* When can the next operation of t take effect and return? *)

CanComplete(s, t) ==
  LET o == NextOp(s, t)  p == Ph(s, t) IN
  /\ ~s.fin[t+1]
  /\ PanicKind(s, t) = ""
  /\ ~MustCancel(s, t)       \* an aborted future is dropped at its next poll: it performs no further step
  /\ CASE o.k = "lock" -> p \in {"ready", "wait"} /\ MFree(s, o.o)
       [] o.k = "ayield" -> p = "ypend"
       [] o.k = "suspend" -> p = "susp" /\ s.xr[t+1]
       [] o.k = "await_flag" -> p \in {"ready", "fpoll"} /\ s.flg[o.o+1]
       [] o.k = "await_join" -> s.hasres[ChildId(s, o.v) + 1] \/ s.jtaken[ChildId(s, o.v) + 1]
       [] o.k = "join" -> HasChild(s, o.v) /\ s.fin[ChildId(s, o.v) + 1]
       [] o.k = "scope_end" -> \A c \in s.sc[t+1] : ClosureReturned(s, c)
       [] o.k = "exit" -> FALSE
       [] o.k = "cv_wait" -> p \in {"relock", "relockwait"} /\ MFree(s, o.v)
       [] o.k = "read" -> RFits(s, o.o)
       [] o.k = "write" -> WFits(s, o.o)
       [] o.k = "park" -> s.tok[t+1] \/ (p = "parked" /\ (s.unpk[t+1] \/ SpuriousWakeups))
       [] o.k = "send" -> LET c == s.ch[o.o+1] IN
                          IF p = "wait" THEN ~c.rxalive \/ (Head(c.waitS) = t /\ HeadSEnabled(c))
                          ELSE ~c.rxalive \/ ~MustBlockS(c)
       [] o.k \in {"recv", "try_recv"} ->
                          LET c == s.ch[o.o+1] IN
                          IF p = "wait" THEN Disc(c) \/ (Head(c.waitR) = t /\ c.buf # <<>>)
                          ELSE Disc(c) \/ (o.k = "try_recv" /\ TryRecvEmpty(c)) \/ (c.buf # <<>> /\ c.waitR = <<>>)
       [] o.k = "barrier_wait" -> LET b == s.bar[o.o+1] IN
                          IF p = "wait" THEN t \in b.rel ELSE Cardinality(b.arrived) + 1 >= b.n
       [] o.k \in OnceOps -> (p = "ready" /\ s.once[OIdx(s, t)+1].st = "done") \/ p \in {"once_skip", "once_fin"}
       [] o.k \in LazyOps -> (p = "ready" /\ s.once[OIdx(s, t)+1].st = "done") \/ p = "lz_go"
       [] o.k = "acquire" -> LET sm == s.sem[o.o+1] IN
                          IF p = "wait" THEN sm.closed \/ (IF sm.fair THEN t \in sm.granted ELSE o.v <= sm.avail)
                          ELSE sm.closed \/ (o.v <= sm.avail /\ (~sm.fair \/ sm.q = <<>>))
       [] OTHER -> TRUE

\* result and successor state of completing the next operation of t
Complete(s, t) ==
  LET o == NextOp(s, t)
      p == Ph(s, t)
      base == [Unhard(s, {t}) EXCEPT !.pc[t+1] = @ + 1, !.ph[t+1] = "ready", !.ind[t+1] = 0, !.xr[t+1] = FALSE,
                        !.due = IF s.inpoll[t+1] THEN @ ELSE @ \ {t},     \* this step opens a new poll
                        !.inpoll[t+1] = s.fut[t+1]]     \* a future task that completes a step is inside a poll
      R(r, s2) == [r |-> r, s |-> [s2 EXCEPT !.acc[t+1] = r]]
  IN
  CASE o.k \in {"spawn", "spawn_named", "sspawn", "spawn_future"} ->
         R(IF o.k = "spawn_future" THEN 0 ELSE s.n, [base EXCEPT !.n = @ + 1, !.ix = Append(@, o.v), !.pc = Append(@, 1), !.ph = Append(@, "ready"),
                             !.fin = Append(@, FALSE), !.acc = Append(@, 0), !.retv = Append(@, 0), !.ind = Append(@, 0),
                             !.wk = Append(@, FALSE), !.xr = Append(@, FALSE), !.tok = Append(@, FALSE),
                             !.unpk = Append(@, FALSE), !.cvgot = Append(@, [kind |-> "n", ep |-> 0]), !.gd = Append(@, [i \in 1..NSlots |-> NoGuard]),
                             !.tls = Append(@, <<>>), !.dty = Append(@, FALSE),
                             !.inpoll = Append(@, FALSE), !.det = Append(@, FALSE), !.ab = Append(@, FALSE), !.canc = Append(@, FALSE),
                             !.hasres = Append(@, FALSE), !.resv = Append(@, 0), !.jw = Append(@, -1), !.jtaken = Append(@, FALSE),
                             !.fut = Append(@, o.k = "spawn_future"),
                             !.sc = Append(IF o.k = "sspawn" THEN [s.sc EXCEPT ![t+1] = @ \cup {o.v}] ELSE s.sc, {}),
                             !.nm = Append(@, IF o.k = "spawn_named" THEN o.v ELSE -1),
                             !.lbl = Append(@, s.lbl[t+1])])
    [] o.k = "join" -> R(s.retv[ChildId(s, o.v) + 1], base)
    [] o.k \in {"yield", "spin"} -> R(0, Wake(base, t))
    [] o.k \in {"sleep", "nop", "scope_begin", "bo_begin"} -> R(0, base)
    [] o.k = "bo_end" -> R(s.acc[t+1], base)
    \* ---- async
    [] o.k = "ayield" -> R(0, base)
    [] o.k = "await_flag" -> R(0, base)
    [] o.k = "await_join" -> LET u == ChildId(s, o.v) IN
                             IF s.jtaken[u+1] THEN R(-6, base)
                             ELSE R(s.resv[u+1], [base EXCEPT !.hasres[u+1] = FALSE, !.jtaken[u+1] = TRUE])
    \* one poll of the JoinHandle with a waker that does nothing: the result if it is there, else -5 (and the
    \* registered waker is now a useless one, until a later poll replaces it)
    [] o.k = "try_join" -> LET u == ChildId(s, o.v) IN
                           IF s.hasres[u+1] THEN R(s.resv[u+1], [base EXCEPT !.hasres[u+1] = FALSE, !.jtaken[u+1] = TRUE])
                           ELSE R(-5, [base EXCEPT !.jw[u+1] = -2])
    [] o.k = "set_flag" ->
         LET b2 == [base EXCEPT !.flg[o.o+1] = TRUE, !.fw[o.o+1] = -1] IN
         R(0, IF s.fw[o.o+1] # -1 THEN Wake(b2, s.fw[o.o+1]) ELSE b2)
    \* poll_fn(|cx| { slot = cx.waker().clone(); Ready }): hand out the task's waker without waiting
    [] o.k = "reg_flag" -> R(0, [base EXCEPT !.fw[o.o+1] = t])
    [] o.k = "suspend" -> R(0, base)
    [] o.k = "wake_only" -> IF s.fw[o.o+1] # -1 THEN R(1, Wake(base, s.fw[o.o+1])) ELSE R(0, base)
    [] o.k = "abort" ->
         LET u == ChildId(s, o.v) IN
         IF s.ab[u+1] THEN R(0, base) ELSE R(0, Wake([base EXCEPT !.ab[u+1] = TRUE], u))
    [] o.k = "detach" -> R(0, [base EXCEPT !.det[ChildId(s, o.v) + 1] = TRUE])
    [] o.k = "is_finished" -> R(IF s.fin[ChildId(s, o.v) + 1] THEN 1 ELSE 0, base)
    \* thread::scope returns once the closure of every scoped thread has returned
    [] o.k = "scope_end" -> R(0, [base EXCEPT !.sc[t+1] = {}])
    [] o.k = "acc" -> R(s.acc[t+1], base)
    \* shuttle::current::reset_step_count(): steps are counted from here on
    [] o.k = "reset_steps" -> R(0, [base EXCEPT !.rst = s.slen])
    [] o.k = "realsleep" -> R(0, base)
    \* a draw from shuttle::rand (reduced mod 4): the value was appended to the schedule as a random marker
    [] o.k = "rand" -> R(s.rv, base)
    [] o.k = "me" -> R(t, base)
    [] o.k = "ret" -> R(s.acc[t+1], [base EXCEPT !.retv[t+1] = s.acc[t+1]])
    \* ---- Mutex
    [] o.k = "lock" -> R(IF s.mpz[o.o+1] THEN 1 ELSE 0,
                         MAcquire([base EXCEPT !.gd[t+1][o.w+1] = [k |-> "m", o |-> o.o]], t, o.o))
    [] o.k = "try_lock" ->
         IF MFree(s, o.o)
         THEN R(IF s.mpz[o.o+1] THEN 2 ELSE 0, MAcquire([base EXCEPT !.gd[t+1][o.w+1] = [k |-> "m", o |-> o.o]], t, o.o))
         ELSE R(1, base)
    [] o.k = "unlock" ->
         LET g == s.gd[t+1][o.w+1]
             b2 == [base EXCEPT !.gd[t+1][o.w+1] = NoGuard] IN
         (CASE g.k = "m" -> R(0, MRelease(b2, g.o))
            [] g.k = "r" -> R(0, RwAfterRelease([b2 EXCEPT !.rw[g.o+1].readers = @ \ {t}], g.o))
            [] g.k = "w" -> R(0, RwAfterRelease([b2 EXCEPT !.rw[g.o+1].writer = -1], g.o)))
    \* the holder panics while holding a Mutex guard (caught inside the task): released and poisoned
    [] o.k = "punlock" ->
         LET g == s.gd[t+1][o.w+1]
             b2 == [base EXCEPT !.gd[t+1][o.w+1] = NoGuard] IN
         \* (std: only a panicking writer poisons an RwLock)
         (CASE g.k = "m" -> R(0, MRelease([b2 EXCEPT !.mpz[g.o+1] = TRUE], g.o))
            [] g.k = "r" -> R(0, RwAfterRelease([b2 EXCEPT !.rw[g.o+1].readers = @ \ {t}], g.o))
            [] g.k = "w" -> R(0, RwAfterRelease([b2 EXCEPT !.rw[g.o+1].writer = -1, !.rw[g.o+1].pz = TRUE], g.o)))
    [] o.k = "unlock_if" ->
         LET g == s.gd[t+1][o.w+1]
             b2 == [base EXCEPT !.gd[t+1][o.w+1] = NoGuard] IN
         (CASE g.k = "none" -> R(0, base)
            [] g.k = "m" -> R(1, MRelease(b2, g.o))
            [] g.k = "r" -> R(1, RwAfterRelease([b2 EXCEPT !.rw[g.o+1].readers = @ \ {t}], g.o))
            [] g.k = "w" -> R(1, RwAfterRelease([b2 EXCEPT !.rw[g.o+1].writer = -1], g.o)))
    [] o.k = "ginc" ->
         LET g == s.gd[t+1][o.w+1] IN
         (CASE g.k = "m" -> R(s.md[g.o+1] + 1, [base EXCEPT !.md[g.o+1] = @ + 1])
            [] g.k = "w" -> R(s.rw[g.o+1].data + 1, [base EXCEPT !.rw[g.o+1].data = @ + 1])
            [] g.k = "r" -> R(s.rw[g.o+1].data, base))
    [] o.k = "gget" ->
         LET g == s.gd[t+1][o.w+1] IN
         IF g.k = "m" THEN R(s.md[g.o+1], base) ELSE R(s.rw[g.o+1].data, base)
    \* ---- RwLock
    [] o.k = "read" -> R(IF s.rw[o.o+1].pz THEN 1 ELSE 0, RwAfterAcquire([base EXCEPT !.rw[o.o+1].readers = @ \cup {t}, !.gd[t+1][o.w+1] = [k |-> "r", o |-> o.o]], t, o.o))
    [] o.k = "write" -> R(IF s.rw[o.o+1].pz THEN 1 ELSE 0, RwAfterAcquire([base EXCEPT !.rw[o.o+1].writer = t, !.gd[t+1][o.w+1] = [k |-> "w", o |-> o.o]], t, o.o))
    [] o.k = "try_read" ->
         IF RFits(s, o.o) /\ t \notin s.rw[o.o+1].readers
         THEN R(IF s.rw[o.o+1].pz THEN 2 ELSE 0, RwAfterAcquire([base EXCEPT !.rw[o.o+1].readers = @ \cup {t}, !.gd[t+1][o.w+1] = [k |-> "r", o |-> o.o]], t, o.o))
         ELSE R(1, base)
    [] o.k = "try_write" ->
         IF WFits(s, o.o)
         THEN R(IF s.rw[o.o+1].pz THEN 2 ELSE 0, RwAfterAcquire([base EXCEPT !.rw[o.o+1].writer = t, !.gd[t+1][o.w+1] = [k |-> "w", o |-> o.o]], t, o.o))
         ELSE R(1, base)
    \* ---- Condvar
    [] o.k = "cv_wait" -> R(IF s.mpz[o.v+1] THEN 1 ELSE 0,
                            MAcquire([base EXCEPT !.gd[t+1][o.w+1] = [k |-> "m", o |-> o.v]], t, o.v))
    [] o.k = "notify_one" ->
         R(0, [base EXCEPT !.cv[o.o+1] =
                 [list |-> [i \in 1..Len(@.list) |-> IF @.list[i].bc THEN @.list[i]
                                                     ELSE [@.list[i] EXCEPT !.toks = Append(@, s.cv[o.o+1].nextE)]],
                  nextE |-> @.nextE + 1]])
    [] o.k = "notify_all" -> R(0, [base EXCEPT !.cv[o.o+1].list = [i \in 1..Len(@) |-> [@[i] EXCEPT !.bc = TRUE]]])
    \* ---- park / unpark
    [] o.k = "park" -> IF p = "parked" THEN R(0, [base EXCEPT !.unpk[t+1] = FALSE])
                       ELSE R(0, [base EXCEPT !.tok[t+1] = FALSE])
    [] o.k = "unpark" ->
         IF ~HasChild(s, o.v) THEN R(-1, base)
         ELSE LET u == ChildId(s, o.v) IN
              IF ~s.fin[u+1] /\ Ph(s, u) = "parked" /\ ~s.unpk[u+1] THEN R(0, [base EXCEPT !.unpk[u+1] = TRUE])
              ELSE R(0, [base EXCEPT !.tok[u+1] = TRUE])
    \* ---- atomics (8-bit wrap-around; one indivisible step)
    [] o.k = "load" -> R(s.av[o.o+1], base)
    [] o.k = "store" -> R(0, [base EXCEPT !.av[o.o+1] = o.v % 256])
    [] o.k = "swap" -> R(s.av[o.o+1], [base EXCEPT !.av[o.o+1] = o.v % 256])
    [] o.k = "fadd" -> R(s.av[o.o+1], [base EXCEPT !.av[o.o+1] = (@ + o.v) % 256])
    [] o.k = "fsub" -> R(s.av[o.o+1], [base EXCEPT !.av[o.o+1] = (@ + 256 - (o.v % 256)) % 256])
    [] o.k = "fmax" -> R(s.av[o.o+1], [base EXCEPT !.av[o.o+1] = Max(@, o.v % 256)])
    [] o.k = "fmin" -> R(s.av[o.o+1], [base EXCEPT !.av[o.o+1] = IF @ < o.v % 256 THEN @ ELSE o.v % 256])
    \* bitwise read-modify-writes (u8 cells)
    [] o.k = "fand" -> R(s.av[o.o+1], [base EXCEPT !.av[o.o+1] = @ & (o.v % 256)])
    [] o.k = "for" -> R(s.av[o.o+1], [base EXCEPT !.av[o.o+1] = @ | (o.v % 256)])
    [] o.k = "fxor" -> R(s.av[o.o+1], [base EXCEPT !.av[o.o+1] = @ ^^ (o.v % 256)])
    [] o.k = "fnand" -> R(s.av[o.o+1], [base EXCEPT !.av[o.o+1] = 255 - (@ & (o.v % 256))])
    \* AtomicBool cells (declared in Prog.boolcells, values 0 / 1)
    [] o.k = "b_load" -> R(s.av[o.o+1], base)
    [] o.k = "b_store" -> R(0, [base EXCEPT !.av[o.o+1] = o.v % 2])
    [] o.k = "b_swap" -> R(s.av[o.o+1], [base EXCEPT !.av[o.o+1] = o.v % 2])
    [] o.k = "b_and" -> R(s.av[o.o+1], [base EXCEPT !.av[o.o+1] = IF @ = 1 /\ o.v % 2 = 1 THEN 1 ELSE 0])
    [] o.k = "b_or" -> R(s.av[o.o+1], [base EXCEPT !.av[o.o+1] = IF @ = 1 \/ o.v % 2 = 1 THEN 1 ELSE 0])
    [] o.k = "b_xor" -> R(s.av[o.o+1], [base EXCEPT !.av[o.o+1] = IF @ # o.v % 2 THEN 1 ELSE 0])
    [] o.k = "b_nand" -> R(s.av[o.o+1], [base EXCEPT !.av[o.o+1] = IF @ = 1 /\ o.v % 2 = 1 THEN 0 ELSE 1])
    [] o.k = "cas" -> IF s.av[o.o+1] = o.v THEN R(s.av[o.o+1], [base EXCEPT !.av[o.o+1] = o.w % 256])
                      ELSE R(256 + s.av[o.o+1], base)
    \* ---- std mpsc
    [] o.k = "clone_tx" -> R(0, [base EXCEPT !.ch[o.o+1].senders = @ + 1])
    [] o.k = "drop_tx" -> R(0, [base EXCEPT !.ch[o.o+1].senders = @ - 1])
    [] o.k = "drop_rx" -> R(0, [base EXCEPT !.ch[o.o+1].rxalive = FALSE])
    [] o.k = "send" ->
         IF ~s.ch[o.o+1].rxalive THEN R(-1, [base EXCEPT !.ch[o.o+1].waitS = Without(@, t)])
         ELSE R(0, [base EXCEPT !.ch[o.o+1].waitS = Without(@, t), !.ch[o.o+1].buf = Append(@, o.v)])
    [] o.k = "try_send" ->
         IF ~s.ch[o.o+1].rxalive THEN R(-1, base)
         ELSE IF MustBlockS(s.ch[o.o+1]) THEN R(-3, base)
         ELSE R(0, [base EXCEPT !.ch[o.o+1].buf = Append(@, o.v)])
    [] o.k \in {"recv", "try_recv"} ->
         LET c == s.ch[o.o+1] IN
         IF Disc(c) THEN R(-2, [base EXCEPT !.ch[o.o+1].waitR = Without(@, t)])
         ELSE IF o.k = "try_recv" /\ p = "ready" /\ TryRecvEmpty(c) THEN R(-1, base)
         ELSE R(Head(c.buf), [base EXCEPT !.ch[o.o+1].waitR = Without(@, t), !.ch[o.o+1].buf = Tail(@)])
    \* ---- Barrier: the arrival that completes the group leads it
    [] o.k = "barrier_wait" ->
         IF p = "wait" THEN R(0, [base EXCEPT !.bar[o.o+1].rel = @ \ {t}])
         ELSE R(1, [base EXCEPT !.bar[o.o+1] = [@ EXCEPT !.rel = @ \cup s.bar[o.o+1].arrived, !.arrived = {}, !.gen = @ + 1]])
    \* ---- Once
    [] o.k \in OnceOps ->
         (CASE p = "ready" -> R(0, base)
            [] p = "once_skip" -> R(0, OnceRelease(base, OIdx(s, t)))
            [] p = "once_fin" -> R(1, OnceRelease(base, OIdx(s, t))))
    [] o.k \in {"is_completed", "sonce_done"} -> R(IF s.once[OIdx(s, t)+1].st = "done" THEN 1 ELSE 0, base)
    \* ---- lazy statics (the value lives in per-execution storage)
    [] o.k = "lz_fadd" -> R(s.lzv[o.o+1], [base EXCEPT !.lzv[o.o+1] = (@ + o.v) % 256])
    [] o.k = "lz_load" -> R(s.lzv[o.o+1], base)
    \* ---- thread-locals: one lazily initialised instance per thread; dead slots are never resurrected
    [] o.k \in {"tls_get", "tls_set"} ->
         LET r == TlsRead(s, t, o.o) IN
         R(r.v, IF o.k = "tls_set" /\ r.v # -7 THEN TlsWrite(TlsTouch(base, t, o.o), t, o.o, o.v) ELSE TlsTouch(base, t, o.o))
    \* ---- identity
    [] o.k = "tid" -> R(t, base)
    [] o.k = "name" -> R(s.nm[t+1], base)
    \* labels: set returns the previous label of the task (-1 = none); every task starts with its parent's labels
    [] o.k = "label_set" -> R(s.lbl[t+1], [base EXCEPT !.lbl[t+1] = o.v])
    [] o.k = "label_get" -> R(s.lbl[t+1], base)
    \* ---- BatchSemaphore
    [] o.k = "acquire" ->
         LET sm == s.sem[o.o+1] IN
         IF p = "wait"
         THEN IF sm.fair
              THEN IF t \in sm.granted THEN R(0, [base EXCEPT !.sem[o.o+1].granted = @ \ {t}, !.sem[o.o+1].held = @ + o.v])
                   ELSE R(-1, base)
              ELSE IF sm.closed THEN R(-1, base)
                   ELSE R(0, SemAfterAcquire([Unhard(base, {t}) EXCEPT !.sem[o.o+1].avail = @ - o.v, !.sem[o.o+1].held = @ + o.v,
                                                          !.sem[o.o+1].q = SelectSeq(@, LAMBDA w : w.t # t)], t, o.o))
         ELSE IF sm.closed THEN R(-1, base)
              ELSE R(0, SemAfterAcquire([base EXCEPT !.sem[o.o+1].avail = @ - o.v, !.sem[o.o+1].held = @ + o.v], t, o.o))
    [] o.k = "try_acquire" ->
         LET sm == s.sem[o.o+1] IN
         IF sm.closed THEN R(-1, base)
         ELSE IF o.v <= sm.avail /\ (~sm.fair \/ sm.q = <<>>)
              THEN R(0, SemAfterAcquire([base EXCEPT !.sem[o.o+1].avail = @ - o.v, !.sem[o.o+1].held = @ + o.v], t, o.o))
              ELSE R(-3, base)
    [] o.k = "release" -> R(0, IF o.v = 0 THEN base ELSE SemRelease(base, o.o, o.v))
    [] o.k = "close" ->
         R(0, IF s.sem[o.o+1].closed THEN base
              ELSE Unhard(WakeAll([base EXCEPT !.sem[o.o+1].closed = TRUE, !.sem[o.o+1].q = <<>>], SemWaiters(s, o.o)), SemWaiters(s, o.o)))
    [] o.k = "avail" -> R(s.sem[o.o+1].avail, base)
    [] o.k = "is_closed" -> R(IF s.sem[o.o+1].closed THEN 1 ELSE 0, base)

-----------------------------------------------------------------------------
(* Unlogged internal progress of t inside its next operation *)

\* phases in which the task is suspended (a scheduling decision follows)
Terminal(p) == p \in {"wait", "cvwait", "parked", "relockwait", "once_wait", "ypend", "fwait", "fpoll", "jwait", "susp"}
\* the future is dropped: it leaves every queue, its result is Cancelled, only its destructors remain
Cancel(s, t) ==
  LET o == NextOp(s, t)
      s1 == IF Ph(s, t) = "wait" /\ o.k = "acquire"
            THEN LET sm == s.sem[o.o+1]
                     sm1 == [sm EXCEPT !.q = SelectSeq(@, LAMBDA w : w.t # t)]
                     \* a granted but never collected acquisition gives its permits back; a fair head that leaves promotes the next
                     sm2 == IF t \in sm.granted THEN [sm1 EXCEPT !.granted = @ \ {t}, !.avail = @ + o.v] ELSE sm1
                     sm3 == IF sm.fair THEN GrantFront(sm2) ELSE sm2 IN
                 WakeAll([s EXCEPT !.sem[o.o+1] = sm3],
                         IF sm.fair THEN sm3.granted \ sm2.granted ELSE {w \in SemWaiters(s, o.o) \ {t} : SemReq(s, o.o, w) <= sm3.avail})
            ELSE s
      \* a JoinHandle the future was awaiting is dropped with it: that detaches the awaited task
      s2 == IF Ph(s, t) = "jwait" /\ o.k = "await_join" THEN [s1 EXCEPT !.det[ChildId(s, o.v) + 1] = TRUE] ELSE s1
  IN [Unhard(s2, {t}) EXCEPT !.canc[t+1] = TRUE, !.pc[t+1] = Len(Code(s, t)) + 2, !.ph[t+1] = "ready", !.xr[t+1] = FALSE,
                !.retv[t+1] = -8]

CanBlock(s, t) ==
  LET o == NextOp(s, t)  p == Ph(s, t) IN
  /\ ~s.fin[t+1]
  /\ PanicKind(s, t) = ""
  /\ IF MustCancel(s, t) \/ StartsPoll(s, t) THEN TRUE ELSE
     CASE p = "ready" ->
            (CASE o.k = "cv_wait" -> TRUE
               [] o.k = "ayield" -> TRUE
               [] o.k = "suspend" -> TRUE
               [] o.k = "await_flag" -> ~s.flg[o.o+1]
               [] o.k = "await_join" -> ~s.hasres[ChildId(s, o.v) + 1] /\ ~s.jtaken[ChildId(s, o.v) + 1]
               [] o.k = "park" -> ~s.tok[t+1]
               [] o.k = "exit" -> TlsLive(s, t) = <<>>     \* every thread-local destructor has run
               [] o.k \in OnceOps \cup LazyOps -> s.once[OIdx(s, t)+1].st # "done"
               [] o.k \in {"lock", "join", "scope_end", "read", "write", "send", "recv", "try_recv", "barrier_wait", "acquire"} -> ~CanComplete(s, t)
               [] OTHER -> FALSE)
       [] p = "cvwait" -> HasSignal(s, o.o, t)
       [] p = "relock" -> ~MFree(s, o.v)
       [] p \in {"wait", "relockwait", "jwait"} -> s.xr[t+1] /\ ~CanComplete(s, t)
       [] p = "fwait" -> s.xr[t+1]
       [] p = "fpoll" -> ~s.flg[o.o+1]
       [] p = "once_wait" -> s.once[OIdx(s, t)+1].owner = -1 \/ s.xr[t+1]
       [] p \in {"once_lk", "once_in", "once_body"} -> TRUE
       [] p \in {"once_skip", "once_fin"} -> o.k \in LazyOps
       [] OTHER -> FALSE

BlockRaw(s, t) ==
  LET o == NextOp(s, t)  p == Ph(s, t) IN
  IF MustCancel(s, t) THEN Cancel(s, t) ELSE
  IF StartsPoll(s, t) THEN s ELSE     \* (the wrapper below records that the task is inside a poll now)
  CASE p = "ready" ->
        (CASE o.k = "exit" ->   \* result published, joiner woken, finished
                LET s1 == [s EXCEPT !.fin[t+1] = TRUE, !.ph[t+1] = "fin", !.hasres[t+1] = TRUE, !.resv[t+1] = s.retv[t+1]] IN
                IF s.jw[t+1] >= 0 THEN Wake(s1, s.jw[t+1]) ELSE s1
           \* yield_now().await: wake self, request a yield, Pending (the wake is consumed at once)
           [] o.k = "ayield" -> [s EXCEPT !.ph[t+1] = "ypend", !.wk[t+1] = FALSE]
           [] o.k = "await_flag" -> EnterPollWait([s EXCEPT !.fw[o.o+1] = t], t, "fwait")
           \* a future that returns Pending once without registering anything: it relies on wakers handed out earlier
           [] o.k = "suspend" -> EnterPollWait(s, t, "susp")
           [] o.k = "await_join" -> EnterPollWait([s EXCEPT !.jw[ChildId(s, o.v) + 1] = t], t, "jwait")
           [] o.k = "cv_wait" ->    \* release the mutex (the guard is consumed), enqueue as a waiter
                MRelease([s EXCEPT !.ph[t+1] = "cvwait", !.gd[t+1][o.w+1] = NoGuard,
                                   !.cv[o.o+1].list = Append(@, [t |-> t, toks |-> <<>>, bc |-> FALSE])], o.v)
           [] o.k = "park" -> [s EXCEPT !.ph[t+1] = "parked", !.unpk[t+1] = FALSE]
           [] o.k \in {"lock", "read", "write"} -> EnterPollWait(s, t, "wait")
           [] o.k = "acquire" -> EnterPollWait([s EXCEPT !.sem[o.o+1].q = Append(@, [t |-> t, n |-> o.v])], t, "wait")
           [] o.k \in {"join", "scope_end"} -> SetPh(s, t, "wait")
           [] o.k = "send" -> [s EXCEPT !.ph[t+1] = "wait", !.ch[o.o+1].waitS = Append(@, t)]
           [] o.k \in {"recv", "try_recv"} -> [s EXCEPT !.ph[t+1] = "wait", !.ch[o.o+1].waitR = Append(@, t)]
           [] o.k = "barrier_wait" -> [s EXCEPT !.ph[t+1] = "wait", !.bar[o.o+1].arrived = @ \cup {t}]
           \* not complete yet: the caller is now committed to go through the internal lock
           [] o.k \in OnceOps \cup LazyOps -> SetPh(s, t, "once_lk"))
    [] p = "once_lk" ->
         IF s.once[OIdx(s, t)+1].owner = -1 THEN OnceAcquire(s, t, OIdx(s, t)) ELSE EnterPollWait(s, t, "once_wait")
    [] p = "cvwait" -> SetPh(Consume(s, o.o, t), t, "relock")
    [] p = "relock" -> EnterPollWait(s, t, "relockwait")
    [] p \in {"wait", "relockwait", "jwait"} -> Repoll(s, t)
    \* a woken flag-future is polled again: its first action is the (atomic) load of the flag
    [] p = "fwait" -> [s EXCEPT !.ph[t+1] = "fpoll", !.xr[t+1] = FALSE]
    [] p = "fpoll" -> EnterPollWait([s EXCEPT !.fw[o.o+1] = t], t, "fwait")
    [] p = "once_wait" ->
         IF s.once[OIdx(s, t)+1].owner = -1 THEN OnceAcquire(s, t, OIdx(s, t))
         ELSE Repoll(s, t)
    [] p = "once_in" ->
         IF s.once[OIdx(s, t)+1].st = "done" THEN SetPh(s, t, "once_skip")
         ELSE SetPh(s, t, "once_body")
    [] p = "once_body" ->   \* the initializer's visible effect, then completion is recorded
         LET s1 == IF o.k \in OnceOps /\ o.w >= 0 THEN [s EXCEPT !.av[o.w+1] = o.v % 256] ELSE s IN
         [s1 EXCEPT !.ph[t+1] = "once_fin", !.once[OIdx(s, t)+1].st = "done", !.once[OIdx(s, t)+1].doneby = t]
    \* a lazy static: the internal lock is released, the access itself follows
    [] p \in {"once_skip", "once_fin"} -> SetPh(OnceRelease(s, OIdx(s, t)), t, "lz_go")

\* Pending ends the poll; any other internal step of a future task happens inside one
PendingPhase(p) == p \in {"ypend", "fwait", "jwait", "susp"} \/ p = "wait"
Block(s, t) ==
  LET r == BlockRaw(s, t) IN
  IF s.fut[t+1] /\ ~r.fin[t+1]
  THEN LET inp == ~(PendingPhase(r.ph[t+1]) /\ (r.ph[t+1] # "wait" \/ NextOp(r, t).k = "acquire")) IN
       [r EXCEPT !.inpoll[t+1] = inp, !.due = IF ~s.inpoll[t+1] /\ inp THEN @ \ {t} ELSE @]
  ELSE r

-----------------------------------------------------------------------------
(* Scheduler-visible status, derived from the abstract state *)

Progress(s, t) ==
  LET o == NextOp(s, t)  p == Ph(s, t) IN
  CASE p = "ready" -> TRUE
    [] p = "wait" -> CanComplete(s, t) \/ (o.k \in {"lock", "read", "write", "acquire"} /\ s.xr[t+1]) \/ MustCancelWake(s, t)
    [] p \in {"ypend", "fpoll"} -> TRUE
    [] p \in {"fwait", "jwait", "susp"} -> s.xr[t+1] \/ (p = "jwait" /\ CanComplete(s, t))
    [] p = "cvwait" -> HasSignal(s, o.o, t)
    [] p = "relock" -> TRUE
    [] p = "relockwait" -> MFree(s, o.v) \/ s.xr[t+1]
    [] p = "parked" -> s.unpk[t+1]
    [] p = "once_wait" -> s.once[OIdx(s, t)+1].owner = -1 \/ s.xr[t+1]
    [] p \in {"once_lk", "once_in", "once_body", "once_skip", "once_fin", "lz_go"} -> TRUE
    [] OTHER -> FALSE

\* ---- step bound (Config::max_steps): counted in schedule entries = decisions + random draws
MaxStepsCfg(s) == Prog(s).maxsteps
BoundN(s) == IF MaxStepsCfg(s) > 0 THEN MaxStepsCfg(s) ELSE IF MaxStepsCfg(s) < 0 THEN 0 - MaxStepsCfg(s) ELSE 3000
BoundFails(s) == MaxStepsCfg(s) >= 0
StepsUsed(s) == s.slen - s.rst
BoundHit(s) == StepsUsed(s) >= BoundN(s)

MustOffer(s) == {t \in Live(s) : Progress(s, t)}
Spurious(s) == {t \in Live(s) : Ph(s, t) = "parked" /\ ~s.unpk[t+1]}
Unfinished(s) == Live(s)
Attached(s) == {t \in Live(s) : ~s.det[t+1]}
\* the execution ends when nothing can progress, or when only detached tasks are left: those are cut off
Ends(s) == MustOffer(s) = {} \/ (Attached(s) = {} /\ \A t \in MustOffer(s) : s.det[t+1])
Verdict(s) == IF Attached(s) = {} THEN "ok" ELSE "deadlock"

-----------------------------------------------------------------------------
(* Invariants over the abstract state (checked on every state TLC reaches, and therefore on
   every state a validated trace passes through) *)

HoldersOf(s, kind, obj) == {t \in Tasks(s) : \E i \in 1..NSlots : s.gd[t+1][i] = [k |-> kind, o |-> obj]}

MutexExclusion(s) ==
  \A m \in 0..(Len(s.mh) - 1) :
     HoldersOf(s, "m", m) = (IF s.mh[m+1] = -1 THEN {} ELSE {s.mh[m+1]})
RwExclusion(s) ==
  \A r \in 0..(Len(s.rw) - 1) :
     /\ s.rw[r+1].writer # -1 => s.rw[r+1].readers = {}
     /\ Cardinality(HoldersOf(s, "w", r)) <= 1
     /\ (HoldersOf(s, "w", r) # {} => HoldersOf(s, "r", r) = {})
ChanCapacity(s) ==
  \A c \in 1..Len(s.ch) : s.ch[c].cap >= 0 => Len(s.ch[c].buf) <= Max(s.ch[c].cap, 1)
SemNonNegative(s) == \A x \in 1..Len(s.sem) : s.sem[x].avail >= 0
\* permits available + handed to queued waiters + taken by completed acquisitions = initial + released
RECURSIVE SumReq(_, _, _)
SumReq(s, x, T) == IF T = {} THEN 0 ELSE LET t == CHOOSE u \in T : TRUE IN SemReqOf(s, t) + SumReq(s, x, T \ {t})
PermitConservation(s) ==
  \A x \in 1..Len(s.sem) :
     s.sem[x].avail + SumReq(s, x, s.sem[x].granted) + s.sem[x].held = Prog(s).sems[x].n + s.sem[x].rel
FairHeadNeverFits(s) ==
  \A x \in 1..Len(s.sem) : (s.sem[x].fair /\ s.sem[x].q # <<>>) => Head(s.sem[x].q).n > s.sem[x].avail
BarrierBound(s) == \A b \in 1..Len(s.bar) : Cardinality(s.bar[b].arrived) < Max(s.bar[b].n, 1)

\* no execution performs more than n steps
StepBoundInv(s) == StepsUsed(s) <= BoundN(s)

\* every waker wake is honoured: a future whose waker was invoked during or after its latest poll is offered for another one
NoLostWake(s) == \A t \in s.due : (s.fut[t+1] /\ ~s.fin[t+1] /\ ~s.inpoll[t+1]) => Progress(s, t)

StateInv(s) == /\ MutexExclusion(s) /\ RwExclusion(s) /\ ChanCapacity(s) /\ SemNonNegative(s) /\ PermitConservation(s)
               /\ FairHeadNeverFits(s) /\ BarrierBound(s)
\* the same, as a list of names of violated invariants (trace validation reports and goes on)
Violated(s) == (IF MutexExclusion(s) THEN {} ELSE {"MutexExclusion"})
          \cup (IF RwExclusion(s) THEN {} ELSE {"RwExclusion"})
          \cup (IF ChanCapacity(s) THEN {} ELSE {"ChanCapacity"})
          \cup (IF SemNonNegative(s) THEN {} ELSE {"SemNonNegative"})
          \cup (IF PermitConservation(s) THEN {} ELSE {"PermitConservation"})
          \cup (IF FairHeadNeverFits(s) THEN {} ELSE {"FairHeadNeverFits"})
          \cup (IF BarrierBound(s) THEN {} ELSE {"BarrierBound"})
          \cup (IF StepBoundInv(s) THEN {} ELSE {"StepBound"})
          \cup (IF NoLostWake(s) THEN {} ELSE {"NoLostWake"})
          \cup (IF s.leak THEN {"UnwindingTaskAbandoned"} ELSE {})
=============================================================================
