----------------------------- MODULE TraceLocks -----------------------------
(***************************************************************************)
(* Validates the executions of parking_lot / dashmap programs against Locks.tla.   *)
(* The harness logs every operation at its call and at its return (plus    *)
(* task ends and how the run ended); the linearization points in between   *)
(* are the specification's own internal steps (Lin).  An execution is      *)
(* accepted iff some placement of them explains every result, and          *)
(*   - a run that ends normally has every task finished,                   *)
(*   - a reported deadlock is one in the reference model too: no pending   *)
(*     operation of a blocked task can take effect (a lost notification,   *)
(*     a capacity slot that was never given back, ... show up here),       *)
(*   - no run panics.                                                      *)
(***************************************************************************)
EXTENDS Naturals, Integers, Sequences, FiniteSets, TLC, Json, IOUtils, Locks

ProgsIn == ndJsonDeserialize(IOEnv.PROGS)
Nodes == ndJsonDeserialize(IOEnv.TRIE)
Diag == "DIAG" \in DOMAIN IOEnv /\ IOEnv.DIAG = "1"
Range(f) == {f[i] : i \in DOMAIN f}

VARIABLES node, S
vars == <<node, S>>
\* DEVIATION of the code (flagged): downgrade_to_upgradable waits for the upgradable slot, which a thread queued in
\* lock_upgradable already owns while it waits for the exclusive holder (or that an overtaken upgrader still owns): both
\* block for ever
StuckDowngrade(s, t) == /\ s.st[t+1] \in {"called"} /\ s.pend[t+1].k = "down_to_up"
                        /\ \E u \in 0..(s.n - 1) : u # t /\ s.st[u+1] = "called" /\ s.pend[u+1].k \in {"up_lock", "upgrade"} /\ s.pend[u+1].o = s.pend[t+1].o

ProgIdx(pid) == CHOOSE i \in 1..Len(ProgsIn) : ProgsIn[i].id = pid
Tasks(s) == 0..(s.n - 1)
Pending(s) == {t \in Tasks(s) : s.st[t+1] \in {"called", "queued"}}
Blocked(s, t) == s.st[t+1] \in {"called", "queued"} /\ Steps(s, t) = {}

Apply(e) ==
  CASE e.e = "exec" -> S' = Init0(ProgsIn[ProgIdx(e.p)], ProgIdx(e.p))
    [] e.e = "start" -> S' = S
    [] e.e = "call" -> /\ S.st[e.t+1] = "idle"
                       /\ S' = Register([S EXCEPT !.pend[e.t+1] = [k |-> e.k, o |-> e.o, v |-> e.v], !.st[e.t+1] = "called"], e.t)
    [] e.e = "ret" -> /\ S.st[e.t+1] = "done" /\ S.res[e.t+1] = e.r
                      /\ S' = [S EXCEPT !.st[e.t+1] = "idle", !.pend[e.t+1] = NoOp]
    [] e.e = "fin" -> S.st[e.t+1] = "idle" /\ S' = [S EXCEPT !.fin[e.t+1] = TRUE]
    [] e.e = "end" ->
         /\ CASE e.v = "ok" -> \A t \in Tasks(S) : S.fin[t+1]
              \* the tasks named are the unfinished ones, and none of them can make progress in the model
              [] e.v = "deadlock" ->
                   \* (the main task joins the others after its own body: it is always among the blocked ones)
                   LET U == {t \in Tasks(S) \ {0} : ~S.fin[t+1]} IN
                   /\ Range(e.bl) = U \cup {0}
                   /\ \A t \in U : Blocked(S, t) \/ StuckDowngrade(S, t)
                   /\ IF S.fin[1] THEN U # {} ELSE (Blocked(S, 0) \/ StuckDowngrade(S, 0))
              [] OTHER -> FALSE
         /\ S' = IF e.v = "deadlock" /\ \E t \in Tasks(S) : StuckDowngrade(S, t)
                 THEN [S EXCEPT !.flags = @ \cup {"DowngradeToUpgradableBlocks"}] ELSE S

Init == node = 1 /\ S = [p |-> 0]
Next == \/ \E c \in Range(Nodes[node].kids) : node' = c /\ Apply(Nodes[c].ev)
        \* linearization: a pending operation takes (the next part of) its effect
        \/ /\ S.p # 0 /\ node' = node
           /\ \E t \in Pending(S) : S' \in Steps(S, t)
Spec == Init /\ [][Next]_vars

LeafInv == (Nodes[node].kids = <<>> => PrintT(<<"LEAF", node, S.flags>>))
           /\ (Diag => PrintT(<<"AT", node, ToString(S)>>))
           /\ (S.p # 0 => ModelInv(S))
=============================================================================
