--------------------------------- MODULE Dfs ---------------------------------
(***************************************************************************)
(* DfsScheduler (C09): the level stack algorithm, transcribed action by    *)
(* action, closed with an environment that offers an ARBITRARY finite      *)
(* choice tree: the arity at every prefix is chosen lazily the first time  *)
(* the prefix is reached and remembered, so branching may depend on the    *)
(* path.  TLC explores all trees up to depth MaxDepth / arity MaxArity and *)
(* checks that the search visits every leaf exactly once and then stops.   *)
(* TraceDfs reuses NewExecution / NextTask to validate the call log of the *)
(* real scheduler.                                                         *)
(***************************************************************************)
EXTENDS Naturals, Integers, Sequences, FiniteSets, TLC

CONSTANTS MaxDepth, MaxArity, MaxIter, StepBound,  \* 1000 = unbounded
          Mut   \* 0: the algorithm; 1, 2: deliberately wrong variants that TLC must refute (self-test)

VARIABLES levels,      \* sequence of <<task, was_last>>
          steps, iterations,
          \* ---- environment / ghost
          tree,        \* path |-> arity (0 = leaf), the part of the tree discovered so far
          path,        \* choices of the execution in progress
          visited,     \* sequence of completed executions (paths)
          mode         \* "idle" | "running" | "stopped"
vars == <<levels, steps, iterations, tree, path, visited, mode>>

HasMore(lv, i) == \E j \in i..Len(lv) : ~lv[j][2]
PosIn(run, x) == CHOOSE i \in 1..Len(run) : run[i] = x

\* ---- the scheduler (same text is used by TraceDfs)
NewExecStops(lv, its, maxIter) == (maxIter >= 0 /\ its >= maxIter) \/ (its > 0 /\ ~HasMore(lv, 1))
NextChoice(lv, st, run) ==
  IF st >= Len(lv) THEN run[1]
  ELSE IF HasMore(lv, st + 2) THEN lv[st+1][1]
  ELSE run[PosIn(run, lv[st+1][1]) + 1]
NextLevels(lv, st, run) ==
  IF st >= Len(lv) THEN Append(lv, <<run[1], Len(run) = 1>>)
  ELSE IF HasMore(lv, st + 2) THEN lv
  ELSE LET idx == PosIn(run, lv[st+1][1]) + 1 IN
       IF Mut = 1 THEN Append(SubSeq(lv, 1, st), <<run[idx], idx + 1 = Len(run)>>)      \* sibling marked last too early
       ELSE IF Mut = 2 THEN [lv EXCEPT ![st+1] = <<run[idx], idx = Len(run)>>]          \* deeper levels not dropped
       ELSE Append(SubSeq(lv, 1, st), <<run[idx], idx = Len(run)>>)
\* the assertions of the code: they must never fire
NextTaskSafe(lv, st, run) ==
  /\ st <= Len(lv)
  /\ (st < Len(lv) /\ ~HasMore(lv, st + 2)) =>
        /\ ~lv[st+1][2]
        /\ \E i \in 1..Len(run) : run[i] = lv[st+1][1]
        /\ PosIn(run, lv[st+1][1]) < Len(run)

\* ---- environment: arbitrary tree, discovered lazily
Offered(a) == [i \in 1..a |-> i]
EndExecution == /\ visited' = Append(visited, path) /\ mode' = "idle" /\ path' = <<>>

Start ==
  /\ mode = "idle"
  /\ IF NewExecStops(levels, iterations, MaxIter)
     THEN mode' = "stopped" /\ UNCHANGED <<levels, steps, iterations, tree, path, visited>>
     ELSE /\ iterations' = iterations + 1 /\ steps' = 0 /\ mode' = "running" /\ path' = <<>>
          /\ UNCHANGED <<levels, tree, visited>>

Step ==
  /\ mode = "running"
  /\ \E a \in (IF path \in DOMAIN tree THEN {tree[path]}
               ELSE IF Len(path) >= MaxDepth THEN {0} ELSE 0..MaxArity) :
       /\ tree' = IF path \in DOMAIN tree THEN tree ELSE tree @@ (path :> a)
       /\ IF a = 0 \/ (StepBound >= 0 /\ steps >= StepBound)
          THEN EndExecution /\ UNCHANGED <<levels, steps, iterations>>
          ELSE /\ Assert(NextTaskSafe(levels, steps, Offered(a)), "DfsScheduler assertion would fire")
               /\ path' = Append(path, NextChoice(levels, steps, Offered(a)))
               /\ levels' = NextLevels(levels, steps, Offered(a))
               /\ steps' = steps + 1
               /\ UNCHANGED <<iterations, visited, mode>>

Init == /\ levels = <<>> /\ steps = 0 /\ iterations = 0 /\ tree = << >> /\ path = <<>> /\ visited = <<>> /\ mode = "idle"
Next == Start \/ Step
Spec == Init /\ [][Next]_vars

\* ---- properties
NoRepeat == \A i, j \in 1..Len(visited) : i # j => visited[i] # visited[j]
\* a leaf of the (bounded) tree: arity 0, or cut off by the step bound
IsEnd(p) == p \in DOMAIN tree /\ (tree[p] = 0 \/ (StepBound >= 0 /\ Len(p) >= StepBound))
Children(p) == IF tree[p] = 0 \/ (StepBound >= 0 /\ Len(p) >= StepBound) THEN {} ELSE {Append(p, i) : i \in 1..tree[p]}
\* when the search stops by itself, every child of every discovered inner node was explored and every end was visited
Complete ==
  (mode = "stopped" /\ iterations < MaxIter) =>
     /\ \A p \in DOMAIN tree : \A c \in Children(p) : c \in DOMAIN tree
     /\ \A p \in DOMAIN tree : IsEnd(p) => \E i \in 1..Len(visited) : visited[i] = p
     /\ iterations = Len(visited)
\* with an iteration bound the search runs exactly min(bound, #ends) distinct executions
BoundRespected == iterations <= MaxIter
Inv == NoRepeat /\ Complete /\ BoundRespected
=============================================================================
