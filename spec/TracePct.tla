------------------------------ MODULE TracePct ------------------------------
(***************************************************************************)
(* C11, binding A: decision traces of the real PctScheduler.  Priorities   *)
(* and change points are NOT logged: TLC must find, for every execution    *)
(* from the second iteration on, an initial priority order and at most     *)
(* min(d-1, k-1) change points at multi-choice steps 1..k-1 (k = PCT's     *)
(* running estimate: the largest number of multi-choice steps seen in an   *)
(* earlier execution) such that EVERY choice is the highest-priority       *)
(* offered task, the order changing only by demoting the task that ran     *)
(* last: at a change point or when it yielded.  The first iteration uses   *)
(* the identity order and has no change points.                            *)
(***************************************************************************)
EXTENDS Naturals, Integers, Sequences, FiniteSets, TLC, Json, IOUtils

Log == ndJsonDeserialize(IOEnv.PCTLOG)
Rng(q) == {q[i] : i \in DOMAIN q}

VARIABLES l,        \* position in the log
          order,    \* task ids, highest priority first (hidden state, inferred)
          steps,    \* multi-choice decisions of this execution so far
          used,     \* change points used in this execution
          kest,     \* PCT's estimate k (max multi-choice steps of earlier executions)
          kcur,     \* multi-choice steps of this execution (becomes part of the estimate afterwards)
          depth, iter, ntasks
vars == <<l, order, steps, used, kest, kcur, depth, iter, ntasks>>

Init == l = 1 /\ order = <<>> /\ steps = 0 /\ used = 0 /\ kest = 0 /\ kcur = 0 /\ depth = 1 /\ iter = 0 /\ ntasks = 0

Ev == Log[l]
Mx(a, b) == IF a > b THEN a ELSE b
Mn(a, b) == IF a < b THEN a ELSE b
Perms(n) == {p \in [1..n -> 0..(n-1)] : \A i, j \in 1..n : i # j => p[i] # p[j]}
Demote(ord, t) == SelectSeq(ord, LAMBDA x : x # t) \o <<t>>
First(ord, run) == ord[CHOOSE i \in 1..Len(ord) : ord[i] \in Rng(run) /\ \A j \in 1..(i-1) : ord[j] \notin Rng(run)]

Run == /\ Ev.e = "run"
       /\ depth' = Ev.depth /\ ntasks' = Ev.ntasks /\ iter' = 0 /\ kest' = 0 /\ kcur' = 0
       /\ order' = <<>> /\ steps' = 0 /\ used' = 0
Exec == /\ Ev.e = "exec"
        /\ iter' = iter + 1
        /\ kest' = Mx(kest, kcur) /\ kcur' = 0 /\ steps' = 0 /\ used' = 0
        \* first iteration: identity; afterwards any permutation (the shuffle is not logged)
        /\ IF iter = 0 THEN order' = [i \in 1..ntasks |-> i - 1]
           ELSE order' \in Perms(ntasks)
        /\ UNCHANGED <<depth, ntasks>>
Dec == /\ Ev.e = "dec"
       /\ IF Len(Ev.run) > 1
          THEN \E cp \in (IF iter > 1 /\ used < Mn(depth - 1, kest - 1) /\ steps >= 1 /\ steps <= kest - 1 THEN {FALSE, TRUE} ELSE {FALSE}) :
                 LET ord2 == IF (cp \/ Ev.y) /\ Ev.cur >= 0 THEN Demote(order, Ev.cur) ELSE order IN
                 /\ Ev.ch = First(ord2, Ev.run)
                 /\ order' = ord2
                 /\ used' = IF cp THEN used + 1 ELSE used
                 /\ steps' = steps + 1 /\ kcur' = kcur + 1
          ELSE /\ Ev.ch = Ev.run[1]
               /\ UNCHANGED <<order, used, steps, kcur>>
       /\ UNCHANGED <<kest, depth, iter, ntasks>>
Next == l <= Len(Log) /\ l' = l + 1 /\ (Run \/ Exec \/ Dec)
Spec == Init /\ [][Next]_vars
AtEnd == (l = Len(Log) + 1) => PrintT(<<"PCTLOG-ACCEPTED", Len(Log)>>)
Far == PrintT(<<"PCTAT", l>>)
=============================================================================
