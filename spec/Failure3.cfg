SPECIFICATION Spec
INVARIANT EmitAll
CHECK_DEADLOCK FALSE
CONSTANTS MaxRuns = 3
