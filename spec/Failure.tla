------------------------------ MODULE Failure ------------------------------
(***************************************************************************)
(* C12: which failures emit a schedule, over histories of configured runs  *)
(* in one process.                                                         *)
(*                                                                         *)
(* Intended (the property): a failing run emits exactly one schedule iff   *)
(* its OWN configuration enables persistence, whatever ran before.         *)
(*                                                                         *)
(* Pinned (transcription of the pinned tree, kept for the record and as a  *)
(* self-test): the panic hook is installed once and keeps the Config of    *)
(* the first run; SCHEDULE_PERSISTED_AT is per OS thread, is written even  *)
(* when persistence is None, and is never reset.  TLC lists the histories  *)
(* on which the two differ (they are the defect witnesses) and emits every *)
(* history as a vector for the real runtime.                               *)
(***************************************************************************)
EXTENDS Naturals, Sequences, FiniteSets, TLC, Json

CONSTANTS MaxRuns

Modes == {"none", "print", "file"}
TaskPanics == {"panic_main", "panic_thread", "panic_future", "panic_lock"}
Kinds == {"pass", "deadlock", "maxsteps"} \cup TaskPanics
Threads == {"same", "new"}
\* schedule length of the failing execution: the same body under the same seed fails at the same length
LenOf(k) == CASE k = "pass" -> 9 [] k = "deadlock" -> 5 [] k = "maxsteps" -> 7 [] k = "panic_main" -> 2
              [] k = "panic_thread" -> 4 [] k = "panic_future" -> 6 [] k = "panic_lock" -> 8

VARIABLES hist,      \* sequence of [mode, kind, thread]
          hookCfg,   \* pinned: mode captured by the process-wide hook ("unset" before the first run)
          pat,       \* pinned: SCHEDULE_PERSISTED_AT of the main thread
          intended, pinned
vars == <<hist, hookCfg, pat, intended, pinned>>

Init == hist = <<>> /\ hookCfg = "unset" /\ pat = 0 /\ intended = <<>> /\ pinned = <<>>

Emits(mode) == IF mode = "none" THEN 0 ELSE 1

Run(mode, kind, thread) ==
  LET hc == IF hookCfg = "unset" THEN mode ELSE hookCfg
      pa0 == IF thread = "new" THEN 0 ELSE pat
      len == LenOf(kind)
      \* pinned tree: who persists first, and with which configuration
      first == IF kind \in TaskPanics THEN hc ELSE mode          \* hook (first Config) vs runtime (own Config)
      emitted == IF kind = "pass" THEN 0 ELSE IF pa0 = len THEN 0 ELSE Emits(first)
      pa1 == IF kind = "pass" THEN pa0 ELSE len
  IN /\ hist' = Append(hist, [mode |-> mode, kind |-> kind, thread |-> thread])
     /\ hookCfg' = hc
     /\ pat' = IF thread = "new" THEN pat ELSE pa1
     /\ intended' = Append(intended, IF kind = "pass" THEN 0 ELSE Emits(mode))
     /\ pinned' = Append(pinned, emitted)

Next == Len(hist) < MaxRuns /\ \E m \in Modes, k \in Kinds, t \in Threads : Run(m, k, t)
Spec == Init /\ [][Next]_vars

Vec == PrintT(<<"HIST", ToJson([runs |-> hist, intended |-> intended, pinned |-> pinned])>>)
EmitAll == hist # <<>> => Vec
\* self-test: on the pinned tree the property does NOT hold (TLC must refute this)
PinnedConforms == pinned = intended
=============================================================================
