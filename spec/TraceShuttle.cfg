SPECIFICATION Spec
INVARIANT LeafInv
INVARIANT SafetyInv
CHECK_DEADLOCK FALSE
