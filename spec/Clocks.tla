------------------------------- MODULE Clocks -------------------------------
(***************************************************************************)
(* C15: vector clocks against the happens-before relation.                 *)
(*                                                                         *)
(* The trace specification carries, next to the abstract state, a history  *)
(* of the logged operations of the execution and two relations over it:    *)
(*   hb  - the edges the property promises (program order, spawn, join,    *)
(*         unlock->lock, send->recv and recv->freed send, notify->woken    *)
(*         wait, barrier arrivals->departures, once completion->callers,   *)
(*         atomic write->later read/RMW, semaphore release->the acquires   *)
(*         that consume its permits, oldest batch first), closed           *)
(*         transitively;                                                   *)
(*   hx  - the most any implementation could justify: every operation on   *)
(*         an object after every earlier operation on the same object.     *)
(* Soundness:  a in hb(e)  =>  clk(a) <= clk(e).                            *)
(* Precision:  a, e clock-advancing, different tasks, a not in hx(e)       *)
(*             =>  not (clk(a) <= clk(e)).                                  *)
(* Own clock:  the clock of a task only grows.                             *)
(* Operators take the abstract state before (s) and after (s2) the step.   *)
(***************************************************************************)
EXTENDS Naturals, Integers, Sequences, FiniteSets, TLC

MaxReads == 1000     \* stands for the RwLock's MAX_READS permits

At(q, i) == IF i >= 1 /\ i <= Len(q) THEN q[i] ELSE 0
Leq(c1, c2) == \A i \in 1..Len(c1) : c1[i] <= At(c2, i)
SetAt(q, i, v) == [j \in 1..(IF i > Len(q) THEN i ELSE Len(q)) |-> IF j = i THEN v ELSE At(q, j)]
SetsAt(q, i) == IF i >= 1 /\ i <= Len(q) THEN q[i] ELSE {}
SetSetsAt(q, i, v) == [j \in 1..(IF i > Len(q) THEN i ELSE Len(q)) |-> IF j = i THEN v ELSE SetsAt(q, j)]

HInit(P) ==
  [ev |-> <<>>, last |-> <<>>, born |-> <<>>,
   sg |-> <<>>,      \* per task: the releases whose permits a fair semaphore handed to it while it was queued
   mb |-> [m \in 1..P.nmutex |-> << [n |-> 1, ev |-> 0] >>],
   rb |-> [r \in 1..P.nrw |-> << [n |-> MaxReads, ev |-> 0] >>],
   sb |-> [x \in 1..Len(P.sems) |-> IF P.sems[x].n > 0 THEN << [n |-> P.sems[x].n, ev |-> 0] >> ELSE <<>>],
   aw |-> [a \in 1..Len(P.atomics) |-> {}], fwr |-> [f \in 1..P.nflags |-> {}],
   cs |-> [c \in 1..Len(P.chans) |-> <<>>], cr |-> [c \in 1..Len(P.chans) |-> <<>>], nsend |-> [c \in 1..Len(P.chans) |-> 0],
   cvn |-> [c \in 1..P.ncv |-> <<>>], cvb |-> [c \in 1..P.ncv |-> 0],
   brel |-> <<>>, on |-> [x \in 1..(P.nonce + 4) |-> 0], onset |-> [x \in 1..(P.nonce + 4) |-> FALSE],
   \* per object: every operation so far (for hx)
   xm |-> [m \in 1..P.nmutex |-> {}], xr |-> [r \in 1..P.nrw |-> {}], xs |-> [x \in 1..Len(P.sems) |-> {}],
   xa |-> [a \in 1..Len(P.atomics) |-> {}], xf |-> [f \in 1..P.nflags |-> {}], xc |-> [c \in 1..Len(P.chans) |-> {}],
   xv |-> [c \in 1..P.ncv |-> {}], xb |-> [b \in 1..Len(P.barriers) |-> {}], xo |-> [x \in 1..(P.nonce + 4) |-> {}]]

\* ---- permit batches: an acquisition of n permits consumes from the front and depends on every batch it touches
RECURSIVE Take(_, _)
Take(bs, n) ==   \* [rest, deps]
  IF n = 0 \/ bs = <<>> THEN [rest |-> bs, deps |-> {}]
  ELSE IF Head(bs).n > n THEN [rest |-> <<[n |-> Head(bs).n - n, ev |-> Head(bs).ev]>> \o Tail(bs), deps |-> {Head(bs).ev}]
  ELSE LET r == Take(Tail(bs), n - Head(bs).n) IN [rest |-> r.rest, deps |-> r.deps \cup {Head(bs).ev}]

\* a fair semaphore hands permits to its queued waiters inside `release`, in queue order: the batches are consumed then
RECURSIVE GrantAll(_, _, _, _)
GrantAll(bs, sg, q, newly) ==     \* [bs, sg]
  IF q = <<>> THEN [bs |-> bs, sg |-> sg]
  ELSE IF Head(q).t \in newly
       THEN LET r == Take(bs, Head(q).n) IN GrantAll(r.rest, SetSetsAt(sg, Head(q).t + 1, r.deps), Tail(q), newly)
       ELSE GrantAll(bs, sg, Tail(q), newly)

\* the latest logged operation of task w, or (before its first one) the spawn that created it
LastOrBorn(h, w) == IF At(h.last, w + 1) # 0 THEN At(h.last, w + 1) ELSE At(h.born, w + 1)

Closure(h, S0) == LET S1 == S0 \ {0} IN S1 \cup UNION {h.ev[i].hb : i \in S1}
ClosureX(h, S0) == LET S1 == S0 \ {0} IN S1 \cup UNION {h.ev[i].hx : i \in S1}

\* operations after which the property expects the task's clock to have advanced
Advancing(k, r) ==
  \/ k \in {"lock", "unlock", "load", "store", "swap", "fadd", "fsub", "fmax", "fmin", "cas", "fand", "for", "fxor", "fnand", "b_swap", "b_and", "b_or", "b_xor", "b_nand", "b_load", "b_store", "spawn", "spawn_named", "join",
            "barrier_wait", "read", "write", "set_flag"}
  \/ (k \in {"try_lock", "try_read", "try_write"} /\ r # 1)
  \/ (k \in {"send", "try_send"} /\ r = 0) \/ (k \in {"recv", "try_recv"} /\ r >= 0)

(***************************************************************************)
(* One logged operation: o = the operation record, t its task, r its       *)
(* result, clk the clock read right after it, s / s2 the abstract states   *)
(* before and after.  Returns the new bookkeeping record.                  *)
(***************************************************************************)
HStep(h, s, s2, t, o, r, clk, guard, OIdxOf, tgt, busy) ==
  LET n == Len(h.ev) + 1
      po == At(h.last, t + 1)                         \* program order
      first == IF po = 0 THEN At(h.born, t + 1) ELSE 0  \* spawn -> first event of the child
      m == o.o + 1
      \* ---- sources promised by the property
      g == guard                                       \* guard released by unlock / consumed by cv_wait
      acqM(mm) == Take(h.mb[mm], 1)
      pregranted == o.k = "acquire" /\ s.sem[m].fair /\ t \in s.sem[m].granted
      src ==
        CASE o.k = "lock" \/ (o.k = "try_lock" /\ r # 1) -> acqM(m).deps
          [] o.k = "cv_wait" -> acqM(o.v + 1).deps
                                \cup (IF s2.cvgot[t+1].kind = "s" THEN {At(h.cvn[m], s2.cvgot[t+1].ep + 1)} ELSE {h.cvb[m]})
          [] o.k = "read" \/ (o.k = "try_read" /\ r # 1) -> Take(h.rb[m], 1).deps
          [] o.k = "write" \/ (o.k = "try_write" /\ r # 1) -> Take(h.rb[m], MaxReads).deps
          [] (o.k = "acquire" /\ r = 0) \/ (o.k = "try_acquire" /\ r = 0) ->
               IF pregranted THEN SetsAt(h.sg, t + 1) ELSE Take(h.sb[m], o.v).deps
          [] o.k \in {"load", "swap", "fadd", "fsub", "fmax", "fmin", "cas", "b_load", "fand", "for", "fxor", "fnand", "b_swap", "b_and", "b_or", "b_xor", "b_nand"} -> h.aw[m]
          [] o.k \in {"await_flag", "wake_only", "reg_flag"} -> h.fwr[m]
          \* the end of the child happens before the join (thread join, awaited or probed JoinHandle that delivered)
          [] o.k = "join" \/ (o.k \in {"await_join", "try_join"} /\ r >= 0) -> {LastOrBorn(h, tgt)}
          [] o.k \in {"recv", "try_recv"} /\ r >= 0 -> {Head(h.cs[m])}
          \* a send on a bounded channel of capacity k is ordered after the receive that freed its slot
          [] o.k \in {"send", "try_send"} /\ r = 0 /\ s.ch[m].cap > 0 /\ h.nsend[m] >= s.ch[m].cap ->
               {At(h.cr[m], h.nsend[m] - s.ch[m].cap + 1)}
          [] o.k = "barrier_wait" -> IF r = 1 THEN {LastOrBorn(h, w) : w \in s.bar[m].arrived} ELSE SetsAt(h.brel, t + 1)
          \* (a lazy static that is already initialised is read from storage without any synchronisation
          \*  of its own: no edge is promised for it)
          [] o.k \in {"call_once", "sonce", "is_completed", "sonce_done"} ->
               LET x == OIdxOf + 1 IN
               IF s2.once[x].st = "done" /\ ~(o.k \in {"call_once", "sonce"} /\ r = 1)
               THEN {IF h.onset[x] THEN h.on[x] ELSE LastOrBorn(h, s2.once[x].doneby)} ELSE {}
          [] OTHER -> {}
      hbset == Closure(h, {po, first} \cup src)
      \* ---- everything that touched the same objects before
      objs ==
        CASE o.k \in {"lock", "try_lock"} -> h.xm[m]
          [] o.k \in {"unlock", "unlock_if", "punlock", "ginc", "gget"} ->
               (IF g.k = "m" THEN h.xm[g.o + 1] ELSE IF g.k \in {"r", "w"} THEN h.xr[g.o + 1] ELSE {})
          [] o.k = "cv_wait" -> h.xm[o.v + 1] \cup h.xv[m]
          [] o.k \in {"notify_one", "notify_all"} -> h.xv[m]
          [] o.k \in {"read", "write", "try_read", "try_write"} -> h.xr[m]
          [] o.k \in {"acquire", "try_acquire", "release", "close", "avail", "is_closed"} -> h.xs[m]
          [] o.k \in {"load", "store", "swap", "fadd", "fsub", "fmax", "fmin", "cas", "b_load", "b_store", "fand", "for", "fxor", "fnand", "b_swap", "b_and", "b_or", "b_xor", "b_nand"} -> h.xa[m]
          [] o.k \in {"await_flag", "set_flag", "wake_only", "reg_flag"} -> h.xf[m]
          [] o.k \in {"send", "try_send", "recv", "try_recv", "clone_tx", "drop_tx", "drop_rx"} -> h.xc[m]
          [] o.k = "barrier_wait" -> h.xb[m]
          [] o.k \in {"call_once", "sonce", "lz_fadd", "lz_load", "is_completed", "sonce_done"} ->
               h.xo[OIdxOf + 1] \cup (IF o.k \in {"call_once", "sonce"} /\ o.w >= 0 THEN h.xa[o.w + 1] ELSE {})
          [] o.k \in {"join", "await_join", "try_join"} -> {LastOrBorn(h, tgt)}
          [] OTHER -> {}
      \* tasks that are in the middle of an operation on the same object (queued, arrived, blocked): their
      \* unlogged arrival may already have passed their clock on
      hxset == ClosureX(h, {po, first} \cup src \cup objs \cup {LastOrBorn(h, w) : w \in busy})
      rec == [t |-> t, clk |-> clk, hb |-> hbset, hx |-> hxset, adv |-> Advancing(o.k, r), k |-> o.k]
      h1 == [h EXCEPT !.ev = Append(@, rec), !.last = SetAt(@, t + 1, n)]
      AddX(hh) ==
        CASE o.k \in {"lock", "try_lock"} -> [hh EXCEPT !.xm[m] = @ \cup {n}]
          [] o.k \in {"unlock", "unlock_if", "punlock", "ginc", "gget"} ->
               (IF g.k = "m" THEN [hh EXCEPT !.xm[g.o + 1] = @ \cup {n}]
                ELSE IF g.k \in {"r", "w"} THEN [hh EXCEPT !.xr[g.o + 1] = @ \cup {n}] ELSE hh)
          [] o.k = "cv_wait" -> [hh EXCEPT !.xm[o.v + 1] = @ \cup {n}, !.xv[m] = @ \cup {n}]
          [] o.k \in {"notify_one", "notify_all"} -> [hh EXCEPT !.xv[m] = @ \cup {n}]
          [] o.k \in {"read", "write", "try_read", "try_write"} -> [hh EXCEPT !.xr[m] = @ \cup {n}]
          [] o.k \in {"acquire", "try_acquire", "release", "close", "avail", "is_closed"} -> [hh EXCEPT !.xs[m] = @ \cup {n}]
          [] o.k \in {"load", "store", "swap", "fadd", "fsub", "fmax", "fmin", "cas", "b_load", "b_store", "fand", "for", "fxor", "fnand", "b_swap", "b_and", "b_or", "b_xor", "b_nand"} -> [hh EXCEPT !.xa[m] = @ \cup {n}]
          [] o.k \in {"await_flag", "set_flag", "wake_only", "reg_flag"} -> [hh EXCEPT !.xf[m] = @ \cup {n}]
          [] o.k \in {"send", "try_send", "recv", "try_recv", "clone_tx", "drop_tx", "drop_rx"} -> [hh EXCEPT !.xc[m] = @ \cup {n}]
          [] o.k = "barrier_wait" -> [hh EXCEPT !.xb[m] = @ \cup {n}]
          [] o.k \in {"call_once", "sonce", "lz_fadd", "lz_load", "is_completed", "sonce_done"} ->
               LET h2 == [hh EXCEPT !.xo[OIdxOf + 1] = @ \cup {n}] IN
               IF o.k \in {"call_once", "sonce"} /\ o.w >= 0 THEN [h2 EXCEPT !.xa[o.w + 1] = @ \cup {n}] ELSE h2
          [] OTHER -> hh
      \* ---- effects on the bookkeeping of the promised edges
      Eff(hh) ==
        CASE o.k = "lock" \/ (o.k = "try_lock" /\ r # 1) -> [hh EXCEPT !.mb[m] = acqM(m).rest]
          [] o.k = "cv_wait" -> [hh EXCEPT !.mb[o.v + 1] = Take(hh.mb[o.v + 1], 1).rest]
          [] o.k \in {"unlock", "unlock_if", "punlock"} ->
               (IF g.k = "m" THEN [hh EXCEPT !.mb[g.o + 1] = Append(@, [n |-> 1, ev |-> n])]
                ELSE IF g.k = "r" THEN [hh EXCEPT !.rb[g.o + 1] = Append(@, [n |-> 1, ev |-> n])]
                ELSE IF g.k = "w" THEN [hh EXCEPT !.rb[g.o + 1] = Append(@, [n |-> MaxReads, ev |-> n])] ELSE hh)
          [] o.k = "read" \/ (o.k = "try_read" /\ r # 1) -> [hh EXCEPT !.rb[m] = Take(h.rb[m], 1).rest]
          [] o.k = "write" \/ (o.k = "try_write" /\ r # 1) -> [hh EXCEPT !.rb[m] = Take(h.rb[m], MaxReads).rest]
          [] (o.k = "acquire" /\ r = 0) \/ (o.k = "try_acquire" /\ r = 0) ->
               IF pregranted THEN hh ELSE [hh EXCEPT !.sb[m] = Take(h.sb[m], o.v).rest]
          [] o.k = "release" /\ o.v > 0 ->
               LET ga == GrantAll(Append(hh.sb[m], [n |-> o.v, ev |-> n]), hh.sg, s.sem[m].q, s2.sem[m].granted \ s.sem[m].granted) IN
               [hh EXCEPT !.sb[m] = ga.bs, !.sg = ga.sg]
          [] o.k \in {"store", "swap", "fadd", "fsub", "fmax", "fmin", "b_store", "fand", "for", "fxor", "fnand", "b_swap", "b_and", "b_or", "b_xor", "b_nand"} \/ (o.k = "cas" /\ r < 256) -> [hh EXCEPT !.aw[m] = @ \cup {n}]
          [] o.k = "set_flag" -> [hh EXCEPT !.fwr[m] = @ \cup {n}]
          [] o.k \in {"spawn", "spawn_named", "sspawn", "spawn_future"} -> [hh EXCEPT !.born = SetAt(@, s.n + 1, n)]
          [] o.k \in {"send", "try_send"} /\ r = 0 -> [hh EXCEPT !.cs[m] = Append(@, n), !.nsend[m] = @ + 1]
          [] o.k \in {"recv", "try_recv"} /\ r >= 0 -> [hh EXCEPT !.cs[m] = Tail(@), !.cr[m] = Append(@, n)]
          [] o.k = "notify_one" -> [hh EXCEPT !.cvn[m] = Append(@, n)]
          [] o.k = "notify_all" -> [hh EXCEPT !.cvb[m] = n]
          [] o.k = "barrier_wait" /\ r = 1 ->
               LET srcs == {LastOrBorn(h, w) : w \in s.bar[m].arrived} \cup {IF po # 0 THEN po ELSE At(h.born, t + 1)} IN
               [hh EXCEPT !.brel = [j \in 1..(IF s2.n > Len(@) THEN s2.n ELSE Len(@)) |->
                                      IF (j - 1) \in s.bar[m].arrived THEN srcs ELSE SetsAt(@, j)]]
          \* the winner's call returns: everything it did before the initialisation is what later callers depend on
          [] o.k \in {"call_once", "sonce"} /\ r = 1 ->
               [hh EXCEPT !.on[OIdxOf + 1] = IF po # 0 THEN po ELSE At(h.born, t + 1), !.onset[OIdxOf + 1] = TRUE]
          [] OTHER -> hh
  IN Eff(AddX(h1))

\* ---- the three checks, as names of violated properties (reported by the trace specification)
ClockViolations(h) ==
  IF h.ev = <<>> THEN {} ELSE
  LET n == Len(h.ev)
      e == h.ev[n]
      prev == {i \in 1..(n-1) : h.ev[i].t = e.t}
  IN (IF \A a \in e.hb : Leq(h.ev[a].clk, e.clk) THEN {} ELSE {"HbSound"})
     \cup (IF \A a \in prev : Leq(h.ev[a].clk, e.clk) THEN {} ELSE {"OwnClockMonotone"})
     \cup (IF \A a \in 1..(n-1) : (h.ev[a].t # e.t /\ h.ev[a].adv /\ e.adv /\ a \notin e.hx) => ~Leq(h.ev[a].clk, e.clk)
           THEN {} ELSE {"HbPrecise"})
=============================================================================
