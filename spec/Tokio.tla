------------------------------- MODULE Tokio -------------------------------
(***************************************************************************)
(* Reference models of the tokio contracts that the Shuttle replacements   *)
(* must keep (C19): mpsc (bounded / unbounded), oneshot, Notify, Semaphore,*)
(* Mutex, RwLock, watch, OnceCell and abort.  API level: every operation takes effect atomically at one   *)
(* (or, for operations that queue, two) points between its call and its    *)
(* return; the trace specification TraceTokio.tla places those points.     *)
(*                                                                         *)
(* Results: 0 = ok, -1 = closed / None / disconnected, -2 = full / empty / *)
(* no permits, a value >= 0 for receives and observers.  Where the tokio   *)
(* documentation leaves the answer open (e.g. a try operation on a channel *)
(* that is both full and closed) the model admits every documented answer. *)
(***************************************************************************)
EXTENDS Naturals, Integers, Sequences, FiniteSets, TLC

NoOp == [k |-> "none", o |-> 0, v |-> 0]
MaxReads == 8
FieldOr(P, f) == IF f \in DOMAIN P THEN P[f] ELSE 0

\* ---- initial state for a program record P (fields chans, nos, nnt, sems, nmx, tasks)
TxCount(P, c) == Cardinality({t \in 1..Len(P.tasks) : \E i \in 1..Len(P.tasks[t].tx) : P.tasks[t].tx[i] = c})
Init0(P, pidx) ==
  LET n == Len(P.tasks) IN
  [p |-> pidx, n |-> n,
   ch |-> [c \in 1..Len(P.chans) |-> [buf |-> <<>>, cap |-> P.chans[c], ntx |-> TxCount(P, c - 1), rx |-> TRUE, closed |-> FALSE,
                                      resv |-> 0]],     \* capacity slots reserved by sends that have not pushed yet,
   os |-> [o \in 1..P.nos |-> [val |-> -1, sent |-> FALSE, taken |-> FALSE, tx |-> TRUE, rx |-> TRUE, closed |-> FALSE]],
   nt |-> [x \in 1..P.nnt |-> [permit |-> FALSE, waiters |-> {}, woken |-> {}, one |-> {}]],   \* one: woken by notify_one
   ab |-> {},           \* tasks whose abort has been requested
   gone |-> {},         \* aborted tasks whose future has been dropped
   sm |-> [x \in 1..Len(P.sems) |-> [avail |-> P.sems[x], closed |-> FALSE, q |-> <<>>, granted |-> {}]],
   mx |-> [x \in 1..P.nmx |-> [holder |-> -1, q |-> <<>>]],
   \* watch: latest value, version, sender alive, per receiver-owning task the version it has seen (-1 = no receiver)
   wt |-> [x \in 1..FieldOr(P, "nwt") |-> [val |-> 0, ver |-> 0, tx |-> TRUE,
                                            seen |-> [t \in 1..n |-> IF \E i \in 1..Len(P.tasks[t].wrx) : P.tasks[t].wrx[i] = x - 1 THEN 0 ELSE -1]]],
   \* RwLock: a FIFO semaphore of MaxReads permits (a writer takes them all) plus the protected value
   rl |-> [x \in 1..FieldOr(P, "nrwl") |-> [avail |-> MaxReads, closed |-> FALSE, q |-> <<>>, granted |-> {}, data |-> 0]],
   rheld |-> [t \in 1..n |-> [x \in 1..FieldOr(P, "nrwl") |-> 0]],
   \* OnceCell: the value (-1 = empty), the task running an initialiser (-1 = none), the tasks waiting for it to finish (FIFO)
   oc |-> [x \in 1..FieldOr(P, "noc") |-> [val |-> -1, holder |-> -1, q |-> <<>>]],
   held |-> [t \in 1..n |-> [x \in 1..Len(P.sems) |-> 0]],
   pend |-> [t \in 1..n |-> NoOp],
   st |-> [t \in 1..n |-> "idle"],       \* idle | called | queued | done
   res |-> [t \in 1..n |-> 0],
   fin |-> [t \in 1..n |-> FALSE]]

Done(s, t, r) == [s EXCEPT !.st[t+1] = "done", !.res[t+1] = r]

-----------------------------------------------------------------------------
(* mpsc *)
ClosedS(c) == c.closed \/ ~c.rx
FullC(c) == c.cap >= 0 /\ Len(c.buf) + c.resv >= c.cap

\* fair semaphore: grant from the head while it fits
RECURSIVE GrantFront(_)
GrantFront(sm) ==
  IF sm.q # <<>> /\ Head(sm.q).n <= sm.avail
  THEN GrantFront([sm EXCEPT !.q = Tail(@), !.avail = @ - Head(sm.q).n, !.granted = @ \cup {Head(sm.q).t}])
  ELSE sm
MxGrant(m) == IF m.holder = -1 /\ m.q # <<>> THEN [m EXCEPT !.holder = Head(m.q), !.q = Tail(@)] ELSE m
\* OnceCell: an initialiser that failed or was cancelled hands the right to initialise to the longest-waiting caller
OcGrant(c) == IF c.holder = -1 /\ c.q # <<>> THEN [c EXCEPT !.holder = Head(c.q), !.q = Tail(@)] ELSE c

(* Steps(s, t): the states reachable by one internal step of t's pending operation (the operation's effect, or the
   first half of one that queues).  Empty = the operation cannot make progress in s. *)
Steps(s, t) ==
  LET op == s.pend[t+1]  k == op.k  o == op.o + 1  v == op.v  q == s.st[t+1] = "queued" IN
  CASE k \in {"send", "bsend"} ->
         \* a send first commits (reserves a slot of a bounded channel) (fails once the channel is closed), then pushes: a slot reserved before
         \* close() may still be used afterwards, and the value is dropped silently if the receiver is gone by then
         LET c == s.ch[o] IN
         \* (a waiting send that was handed its slot and then finds the channel closed when it runs again may also give
         \*  the slot back and fail: tokio's semaphore answers Closed to a waiter polled after close() even if its permits
         \*  had been assigned)
         IF q THEN {Done([s EXCEPT !.ch[o].resv = @ - 1, !.ch[o].buf = IF c.rx THEN Append(@, v) ELSE @], t, 0)}
                   \cup (IF ClosedS(c) THEN {Done([s EXCEPT !.ch[o].resv = @ - 1], t, -1)} ELSE {})
         ELSE IF ClosedS(c) THEN {Done(s, t, -1)}
         ELSE IF FullC(c) THEN {}
         ELSE {[s EXCEPT !.ch[o].resv = @ + 1, !.st[t+1] = "queued"]}
    [] k = "try_send" ->     \* the same two steps; the first one never waits
         LET c == s.ch[o] IN
         IF q THEN {Done([s EXCEPT !.ch[o].resv = @ - 1, !.ch[o].buf = IF c.rx THEN Append(@, v) ELSE @], t, 0)}
         ELSE (IF ClosedS(c) THEN {Done(s, t, -1)} ELSE {})
              \cup (IF FullC(c) THEN {Done(s, t, -2)} ELSE {})
              \cup (IF ~ClosedS(c) /\ ~FullC(c) THEN {[s EXCEPT !.ch[o].resv = @ + 1, !.st[t+1] = "queued"]} ELSE {})
    [] k = "cap" ->
         LET c == s.ch[o] IN
         IF ClosedS(c) THEN {Done(s, t, r) : r \in 0..(IF c.cap >= 0 THEN c.cap ELSE 0)}
         ELSE {Done(s, t, c.cap - Len(c.buf) - c.resv)}
    [] k \in {"recv", "brecv"} ->
         LET c == s.ch[o] IN
         IF c.buf # <<>> THEN {Done([s EXCEPT !.ch[o].buf = Tail(@)], t, Head(c.buf))}
         \* None only once nothing can arrive any more: no sender (or closed) and no reserved slot outstanding
         ELSE IF (c.ntx = 0 \/ c.closed) /\ c.resv = 0 THEN {Done(s, t, -1)}
         ELSE {}
    [] k = "try_recv" ->
         LET c == s.ch[o] IN
         IF c.buf # <<>> THEN {Done([s EXCEPT !.ch[o].buf = Tail(@)], t, Head(c.buf))}
         ELSE IF c.ntx = 0 THEN {Done(s, t, -1)}
         ELSE IF c.closed THEN {Done(s, t, -1), Done(s, t, -2)}
         ELSE {Done(s, t, -2)}
    [] k = "close" -> {Done([s EXCEPT !.ch[o].closed = TRUE], t, 0)}
    [] k = "drop_tx" -> {Done([s EXCEPT !.ch[o].ntx = @ - 1], t, 0)}
    [] k = "drop_rx" -> {Done([s EXCEPT !.ch[o].rx = FALSE, !.ch[o].closed = TRUE, !.ch[o].buf = <<>>], t, 0)}
    \* ---- oneshot: at most one value
    [] k = "os_send" ->
         LET x == s.os[o] IN
         IF ~x.rx \/ x.closed THEN {Done([s EXCEPT !.os[o].tx = FALSE], t, -1)}
         ELSE {Done([s EXCEPT !.os[o].val = v, !.os[o].sent = TRUE, !.os[o].tx = FALSE], t, 0)}
    [] k = "os_recv" ->
         LET x == s.os[o] IN
         IF x.sent /\ ~x.taken THEN {Done([s EXCEPT !.os[o].taken = TRUE, !.os[o].rx = FALSE], t, x.val)}
         \* sender gone, or the receiver itself closed the channel before anything was sent
         ELSE IF ~x.tx \/ x.closed THEN {Done([s EXCEPT !.os[o].rx = FALSE], t, -1)}
         ELSE {}
    [] k = "os_try" ->
         LET x == s.os[o] IN
         IF x.sent /\ ~x.taken THEN {Done([s EXCEPT !.os[o].taken = TRUE], t, x.val)}
         ELSE IF ~x.tx \/ x.taken THEN {Done(s, t, -1)}
         ELSE IF x.closed THEN {Done(s, t, -1), Done(s, t, -2)}
         ELSE {Done(s, t, -2)}
    [] k = "os_close" -> {Done([s EXCEPT !.os[o].closed = TRUE], t, 0)}
    [] k = "os_drop_tx" -> {Done([s EXCEPT !.os[o].tx = FALSE], t, 0)}
    [] k = "os_drop_rx" -> {Done([s EXCEPT !.os[o].rx = FALSE], t, 0)}
    \* ---- Notify: at most one stored permit; notify_one wakes one registered waiter, notify_waiters all of them
    [] k = "nt_one" ->
         LET x == s.nt[o] IN
         IF x.waiters # {} THEN {Done([s EXCEPT !.nt[o].waiters = @ \ {w}, !.nt[o].woken = @ \cup {w}, !.nt[o].one = @ \cup {w}], t, 0) : w \in x.waiters}
         ELSE {Done([s EXCEPT !.nt[o].permit = TRUE], t, 0)}
    [] k = "nt_all" ->
         {Done([s EXCEPT !.nt[o].woken = @ \cup s.nt[o].waiters, !.nt[o].waiters = {}], t, 0)}
    [] k = "nt_wait" ->     \* (registration happens at the call, see Register)
         IF q /\ t \in s.nt[o].woken THEN {Done([s EXCEPT !.nt[o].woken = @ \ {t}, !.nt[o].one = @ \ {t}], t, 0)} ELSE {}
    \* ---- Semaphore: FIFO
    [] k = "sm_acq" ->
         LET x == s.sm[o] IN
         IF q THEN (IF t \in x.granted THEN {Done([s EXCEPT !.sm[o].granted = @ \ {t}, !.held[t+1][o] = v], t, 0)}
                    ELSE IF x.closed THEN {Done(s, t, -1)} ELSE {})
         ELSE IF x.closed THEN {Done(s, t, -1)}
         ELSE IF x.q = <<>> /\ v <= x.avail THEN {Done([s EXCEPT !.sm[o].avail = @ - v, !.held[t+1][o] = v], t, 0)}
         ELSE {[s EXCEPT !.sm[o] = GrantFront([x EXCEPT !.q = Append(@, [t |-> t, n |-> v])]), !.st[t+1] = "queued"]}
    [] k = "sm_try" ->
         LET x == s.sm[o] IN
         IF x.closed THEN {Done(s, t, -1)}
         ELSE IF x.q = <<>> /\ v <= x.avail THEN {Done([s EXCEPT !.sm[o].avail = @ - v, !.held[t+1][o] = v], t, 0)}
         ELSE {Done(s, t, -2)}
    [] k = "sm_rel" ->
         {Done([s EXCEPT !.sm[o] = GrantFront([@ EXCEPT !.avail = @ + s.held[t+1][o]]), !.held[t+1][o] = 0], t, 0)}
    [] k = "sm_add" -> {Done([s EXCEPT !.sm[o] = GrantFront([@ EXCEPT !.avail = @ + v])], t, 0)}
    [] k = "sm_close" -> {Done([s EXCEPT !.sm[o].closed = TRUE, !.sm[o].q = <<>>], t, 0)}
    [] k = "sm_avail" -> {Done(s, t, s.sm[o].avail)}
    \* ---- Mutex: FIFO
    [] k = "mx_lock" ->
         LET m == s.mx[o] IN
         IF q THEN (IF m.holder = t THEN {Done(s, t, 0)} ELSE {})
         ELSE IF m.holder = -1 /\ m.q = <<>> THEN {Done([s EXCEPT !.mx[o].holder = t], t, 0)}
         ELSE {[s EXCEPT !.mx[o] = MxGrant([m EXCEPT !.q = Append(@, t)]), !.st[t+1] = "queued"]}
    [] k = "mx_try" ->
         LET m == s.mx[o] IN
         IF m.holder = -1 /\ m.q = <<>> THEN {Done([s EXCEPT !.mx[o].holder = t], t, 0)} ELSE {Done(s, t, -2)}
    [] k = "mx_unlock" -> IF s.mx[o].holder = t THEN {Done([s EXCEPT !.mx[o] = MxGrant([@ EXCEPT !.holder = -1])], t, 0)}
                          ELSE {Done(s, t, 0)}     \* (nothing held: a failed try_lock left nothing behind)
    \* ---- watch: receivers see the latest value and every change after their last look
    [] k = "w_send" ->
         LET w == s.wt[o] IN
         IF \A u \in 1..s.n : w.seen[u] = -1 THEN {Done(s, t, -1)}        \* no receiver left
         ELSE {Done([s EXCEPT !.wt[o].val = v, !.wt[o].ver = @ + 1], t, 0)}
    [] k = "w_borrow" -> {Done(s, t, s.wt[o].val)}
    [] k = "w_bupd" -> {Done([s EXCEPT !.wt[o].seen[t+1] = s.wt[o].ver], t, s.wt[o].val)}
    [] k = "w_changed" ->
         LET w == s.wt[o] IN
         IF w.seen[t+1] < w.ver THEN {Done([s EXCEPT !.wt[o].seen[t+1] = w.ver], t, 0)}
         ELSE IF ~w.tx THEN {Done(s, t, -1)} ELSE {}
    [] k = "w_has" ->
         LET w == s.wt[o] IN
         IF ~w.tx THEN {Done(s, t, -1)} ELSE {Done(s, t, IF w.seen[t+1] < w.ver THEN 1 ELSE 0)}
    [] k = "w_drop_tx" -> {Done([s EXCEPT !.wt[o].tx = FALSE], t, 0)}
    [] k = "w_drop_rx" -> {Done([s EXCEPT !.wt[o].seen[t+1] = -1], t, 0)}
    \* ---- RwLock: FIFO (a reader queues behind a waiting writer), readers share, a writer excludes
    [] k \in {"rw_read", "rw_write"} ->
         LET x == s.rl[o]  need == IF k = "rw_read" THEN 1 ELSE MaxReads IN
         IF q THEN (IF t \in x.granted THEN {Done([s EXCEPT !.rl[o].granted = @ \ {t}, !.rheld[t+1][o] = need], t, 0)} ELSE {})
         ELSE IF x.q = <<>> /\ need <= x.avail THEN {Done([s EXCEPT !.rl[o].avail = @ - need, !.rheld[t+1][o] = need], t, 0)}
         ELSE {[s EXCEPT !.rl[o] = GrantFront([x EXCEPT !.q = Append(@, [t |-> t, n |-> need])]), !.st[t+1] = "queued"]}
    [] k \in {"rw_try_read", "rw_try_write"} ->
         LET x == s.rl[o]  need == IF k = "rw_try_read" THEN 1 ELSE MaxReads IN
         IF x.q = <<>> /\ need <= x.avail THEN {Done([s EXCEPT !.rl[o].avail = @ - need, !.rheld[t+1][o] = need], t, 0)}
         ELSE {Done(s, t, -2)}
    [] k = "rw_get" -> {Done(s, t, IF s.rheld[t+1][o] > 0 THEN s.rl[o].data ELSE -9)}
    [] k = "rw_set" -> {Done(IF s.rheld[t+1][o] = MaxReads THEN [s EXCEPT !.rl[o].data = v] ELSE s, t, 0)}
    \* a writer becomes a reader without letting anyone else write in between
    [] k = "rw_downgrade" ->
         IF s.rheld[t+1][o] = MaxReads
         THEN {Done([s EXCEPT !.rl[o] = GrantFront([@ EXCEPT !.avail = @ + (MaxReads - 1)]), !.rheld[t+1][o] = 1], t, 0)}
         ELSE {Done(s, t, 0)}
    [] k = "rw_unlock" ->
         {Done([s EXCEPT !.rl[o] = GrantFront([@ EXCEPT !.avail = @ + s.rheld[t+1][o]]), !.rheld[t+1][o] = 0], t, 0)}
    \* ---- OnceCell: set at most once; one initialiser at a time; every caller of get_or_init sees the one value
    [] k = "oc_get" -> {Done(s, t, s.oc[o].val)}
    [] k = "oc_initd" -> {Done(s, t, IF s.oc[o].val # -1 THEN 1 ELSE 0)}
    \* 0 = set, -1 = AlreadyInitialized, -2 = Initializing (somebody's initialiser - or another set - is in progress);
    \* like an initialiser, set first takes the right to initialise and then publishes
    [] k = "oc_set" ->
         LET c == s.oc[o] IN
         IF q THEN {Done([s EXCEPT !.oc[o] = [val |-> v, holder |-> -1, q |-> <<>>]], t, 0)}
         ELSE IF c.val # -1 THEN {Done(s, t, -1)}
         ELSE IF c.holder # -1 THEN {Done(s, t, -2)}
         ELSE {[s EXCEPT !.oc[o].holder = t, !.st[t+1] = "queued"]}
    \* get_or_init / get_or_try_init: v = what the caller's initialiser produces (oc_try with v < 0: it fails, answer -3).
    \* First step: see the value, or become the initialiser, or queue behind the current one; second step (the
    \* initialiser has run, other tasks' operations may lie in between): publish the value, or give up the right.
    [] k \in {"oc_init", "oc_try"} ->
         LET c == s.oc[o] IN
         IF q THEN (IF c.holder = t
                    THEN (IF v >= 0 THEN {Done([s EXCEPT !.oc[o] = [val |-> v, holder |-> -1, q |-> <<>>]], t, v)}
                          ELSE {Done([s EXCEPT !.oc[o] = OcGrant([c EXCEPT !.holder = -1])], t, -3)})
                    ELSE IF c.val # -1 THEN {Done(s, t, c.val)}
                    ELSE {})
         ELSE IF c.val # -1 THEN {Done(s, t, c.val)}
         ELSE IF c.holder = -1 THEN {[s EXCEPT !.oc[o].holder = t, !.st[t+1] = "queued"]}
         ELSE {[s EXCEPT !.oc[o].q = Append(@, t), !.st[t+1] = "queued"]}
    [] k = "abort" -> {Done([s EXCEPT !.ab = @ \cup {v}], t, 0)}
    [] k = "yield" -> {Done(s, t, 0)}
    [] OTHER -> {}

(* An aborted task's future is dropped at one of its await points: its pending operation is abandoned (tokio's
   cancel safety: a queued request leaves the queue, permits already handed over go back, a notification received
   through notify_one is passed on to another waiter or stored) and everything it holds is released.  The set of
   possible successor states (the pass-on picks any waiter). *)
Cancelled(s, t) ==
  LET op == s.pend[t+1]  o == op.o + 1  q == s.st[t+1] = "queued"
      \* 1. the pending operation
      S1 == CASE op.k = "nt_wait" /\ q ->
                   LET x == s.nt[o]
                       base == [s EXCEPT !.nt[o].waiters = @ \ {t}, !.nt[o].woken = @ \ {t}, !.nt[o].one = @ \ {t}] IN
                   IF t \in x.one
                   THEN (IF base.nt[o].waiters # {}
                         THEN {[base EXCEPT !.nt[o].waiters = @ \ {w}, !.nt[o].woken = @ \cup {w}, !.nt[o].one = @ \cup {w}] : w \in base.nt[o].waiters}
                         ELSE {[base EXCEPT !.nt[o].permit = TRUE]})
                   ELSE {base}
             [] op.k = "sm_acq" /\ q ->
                   LET x == s.sm[o] IN
                   IF t \in x.granted THEN {[s EXCEPT !.sm[o] = GrantFront([x EXCEPT !.granted = @ \ {t}, !.avail = @ + op.v])]}
                   ELSE {[s EXCEPT !.sm[o] = GrantFront([x EXCEPT !.q = SelectSeq(@, LAMBDA w : w.t # t)])]}
             [] op.k = "mx_lock" /\ q ->
                   LET m == s.mx[o] IN
                   IF m.holder = t THEN {[s EXCEPT !.mx[o] = MxGrant([m EXCEPT !.holder = -1])]}
                   ELSE {[s EXCEPT !.mx[o].q = SelectSeq(@, LAMBDA w : w # t)]}
             [] op.k \in {"rw_read", "rw_write"} /\ q ->
                   LET x == s.rl[o]  need == IF op.k = "rw_read" THEN 1 ELSE MaxReads IN
                   IF t \in x.granted THEN {[s EXCEPT !.rl[o] = GrantFront([x EXCEPT !.granted = @ \ {t}, !.avail = @ + need])]}
                   ELSE {[s EXCEPT !.rl[o] = GrantFront([x EXCEPT !.q = SelectSeq(@, LAMBDA w : w.t # t)])]}
             [] op.k \in {"oc_init", "oc_try"} /\ q ->
                   LET c == s.oc[o] IN
                   IF c.holder = t THEN {[s EXCEPT !.oc[o] = OcGrant([c EXCEPT !.holder = -1])]}
                   ELSE {[s EXCEPT !.oc[o].q = SelectSeq(@, LAMBDA w : w # t)]}
             [] OTHER -> {s}
      \* 2. what the task holds
      Rel(s1) == [s1 EXCEPT
                    !.sm = [x \in DOMAIN s1.sm |-> GrantFront([s1.sm[x] EXCEPT !.avail = @ + s1.held[t+1][x]])],
                    !.held[t+1] = [x \in DOMAIN s1.sm |-> 0],
                    !.mx = [x \in DOMAIN s1.mx |-> IF s1.mx[x].holder = t THEN MxGrant([s1.mx[x] EXCEPT !.holder = -1]) ELSE s1.mx[x]],
                    !.rl = [x \in DOMAIN s1.rl |-> GrantFront([s1.rl[x] EXCEPT !.avail = @ + s1.rheld[t+1][x]])],
                    !.rheld[t+1] = [x \in DOMAIN s1.rl |-> 0],
                    !.pend[t+1] = NoOp, !.st[t+1] = "idle", !.fin[t+1] = TRUE]
  IN {Rel(s1) : s1 \in S1}

\* the part of an operation that takes effect at the call itself
Register(s, t) ==
  LET op == s.pend[t+1]  o == op.o + 1 IN
  IF op.k = "nt_wait"
  THEN IF s.nt[o].permit THEN Done([s EXCEPT !.nt[o].permit = FALSE], t, 0)
       ELSE [s EXCEPT !.nt[o].waiters = @ \cup {t}, !.st[t+1] = "queued"]
  ELSE s

-----------------------------------------------------------------------------
(* Invariants of the reference model itself (checked on every state a validated trace passes through) *)
CapacityRespected(s) == \A c \in 1..Len(s.ch) : s.ch[c].cap >= 0 => Len(s.ch[c].buf) <= s.ch[c].cap
MutexExclusive(s) == \A m \in 1..Len(s.mx) : Cardinality({t \in 0..(s.n - 1) : s.mx[m].holder = t}) <= 1
PermitsNonNegative(s) == \A x \in 1..Len(s.sm) : s.sm[x].avail >= 0
RwLockExclusive(s) ==
  \A x \in 1..Len(s.rl) : LET H == {t \in 1..s.n : s.rheld[t][x] > 0} IN
     \A t \in H : s.rheld[t][x] = MaxReads => H = {t}
\* nobody initialises a full cell, nobody waits while nobody initialises
OnceCellShape(s) == \A x \in 1..Len(s.oc) : LET c == s.oc[x] IN
     /\ (c.val # -1 => c.holder = -1 /\ c.q = <<>>)
     /\ (c.holder = -1 => c.q = <<>>)
ModelInv(s) == CapacityRespected(s) /\ MutexExclusive(s) /\ PermitsNonNegative(s) /\ RwLockExclusive(s) /\ OnceCellShape(s)
=============================================================================
