SPECIFICATION Spec
INVARIANT Inv
CHECK_DEADLOCK FALSE
CONSTANTS MaxIter = 3
 MaxSteps = 3
 Mut = 0
