SPECIFICATION Spec
INVARIANT Inv
CHECK_DEADLOCK FALSE
CONSTANTS MaxDepth = 3
 MaxArity = 3
 MaxIter = 5
 StepBound = 1000
 Mut = 0
