----------------------------- MODULE Portfolio -----------------------------
(***************************************************************************)
(* C12, last clause: a portfolio run fails exactly when one of its members *)
(* does.  Members run the same body under their own scheduler; a "finder"  *)
(* explores the schedule on which the body fails, a "blind" one does not.  *)
(* With persistence enabled every failing member that reports emits a      *)
(* schedule (at least one does); with it disabled nothing is emitted.      *)
(* TLC enumerates the configurations; each is run against the real         *)
(* PortfolioRunner.                                                        *)
(***************************************************************************)
EXTENDS Naturals, Sequences, FiniteSets, TLC, Json

CONSTANTS MaxMembers
Kinds == {"finder", "blind"}
Modes == {"none", "file"}

VARIABLES members, mode, stop, done
vars == <<members, mode, stop, done>>
Init == members = <<>> /\ mode \in Modes /\ stop \in BOOLEAN /\ done = FALSE
Next == /\ ~done
        /\ \/ Len(members) < MaxMembers /\ \E k \in Kinds : members' = Append(members, k) /\ UNCHANGED <<mode, stop, done>>
           \/ members # <<>> /\ done' = TRUE /\ UNCHANGED <<members, mode, stop>>
Spec == Init /\ [][Next]_vars

Finders == Cardinality({i \in 1..Len(members) : members[i] = "finder"})
Fails == Finders > 0
\* number of schedules emitted: none when disabled or nothing fails; otherwise between one and the number of failing members
MinEmit == IF mode = "none" \/ ~Fails THEN 0 ELSE IF stop THEN 1 ELSE Finders
MaxEmit == IF mode = "none" \/ ~Fails THEN 0 ELSE Finders
Emit == done => PrintT(<<"PORT", ToJson([members |-> members, mode |-> mode, stop |-> stop, fails |-> Fails,
                                          minemit |-> MinEmit, maxemit |-> MaxEmit])>>)
=============================================================================
