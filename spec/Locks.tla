------------------------------- MODULE Locks -------------------------------
(***************************************************************************)
(* Reference models for C20: the lock_api contracts that the parking_lot   *)
(* replacement must keep (RwLock with shared / upgradable / exclusive      *)
(* access, upgrade, the three downgrades, try variants; Mutex), and        *)
(* DashMap as a plain map whose operations are atomic.  API level, like    *)
(* Tokio.tla: TraceLocks.tla places each operation's effect between its    *)
(* logged call and return.                                                 *)
(*                                                                         *)
(* Try variants: they must fail when the access cannot be granted, must    *)
(* succeed when the lock is free and nobody else is operating on it, and   *)
(* may do either while another task has an operation on the lock pending   *)
(* (lock_api leaves that open); a failed try changes nothing.              *)
(***************************************************************************)
EXTENDS Naturals, Integers, Sequences, FiniteSets, TLC

NoOp == [k |-> "none", o |-> 0, v |-> 0]
NKeys == 16

Init0(P, pidx) ==
  LET n == Len(P.tasks) IN
  [p |-> pidx, n |-> n,
   rw |-> [x \in 1..P.nrw |-> [readers |-> {}, upg |-> -1, writer |-> -1, data |-> 0]],
   pm |-> [x \in 1..P.nmx |-> -1],
   dm |-> [x \in 1..P.nmap |-> [k \in 0..(NKeys - 1) |-> -1]],      \* -1 = absent (values are >= 0)
   pend |-> [t \in 1..n |-> NoOp],
   st |-> [t \in 1..n |-> "idle"],
   res |-> [t \in 1..n |-> 0],
   fin |-> [t \in 1..n |-> FALSE],
   flags |-> {}]      \* names of the deviations from the contract that this execution needed (reported as violations)

Done(s, t, r) == [s EXCEPT !.st[t+1] = "done", !.res[t+1] = r]

RwOps == {"rd_lock", "rd_try", "rd_unlock", "wr_lock", "wr_try", "wr_unlock", "up_lock", "up_try", "up_unlock",
          "upgrade", "try_upgrade", "downgrade", "down_up", "down_to_up"}
\* some other task is in the middle of an operation on the same rwlock / mutex
OthersBusy(s, t, kinds, o) ==
  \E u \in 0..(s.n - 1) : u # t /\ s.st[u+1] \in {"called", "queued", "done"} /\ s.pend[u+1].k \in kinds /\ s.pend[u+1].o = o

Steps(s, t) ==
  LET op == s.pend[t+1]  k == op.k  o == op.o + 1  v == op.v IN
  CASE k = "rd_lock" -> IF s.rw[o].writer = -1 THEN {Done([s EXCEPT !.rw[o].readers = @ \cup {t}], t, 0)} ELSE {}
    [] k = "rd_try" ->
         (IF s.rw[o].writer = -1 THEN {Done([s EXCEPT !.rw[o].readers = @ \cup {t}], t, 1)} ELSE {})
         \cup (IF s.rw[o].writer # -1 \/ OthersBusy(s, t, RwOps, op.o) THEN {Done(s, t, 0)} ELSE {})
    [] k = "rd_unlock" -> {Done([s EXCEPT !.rw[o].readers = @ \ {t}], t, 0)}
    [] k = "wr_lock" ->
         LET x == s.rw[o] IN
         IF x.writer = -1 /\ x.readers = {} /\ x.upg = -1 THEN {Done([s EXCEPT !.rw[o].writer = t], t, 0)}
         \* DEVIATION of the code (flagged): a writer that queued before the upgrade request of the upgradable holder
         \* is served first, i.e. the upgrade is not atomic
         ELSE IF x.writer = -1 /\ x.readers = {} /\ x.upg # -1 /\ s.st[x.upg+1] = "called" /\ s.pend[x.upg+1].k = "upgrade"
              THEN {Done([s EXCEPT !.rw[o].writer = t, !.flags = @ \cup {"UpgradeOvertakenByWriter"}], t, 0)}
         ELSE {}
    [] k = "wr_try" ->
         LET x == s.rw[o]  free == x.writer = -1 /\ x.readers = {} /\ x.upg = -1 IN
         (IF free THEN {Done([s EXCEPT !.rw[o].writer = t], t, 1)} ELSE {})
         \cup (IF ~free \/ OthersBusy(s, t, RwOps, op.o) THEN {Done(s, t, 0)} ELSE {})
    [] k = "wr_unlock" -> {Done([s EXCEPT !.rw[o].writer = -1], t, 0)}
    \* at most one upgradable holder; it coexists with shared holders, never with an exclusive one
    [] k = "up_lock" ->
         LET x == s.rw[o] IN
         IF x.writer = -1 /\ x.upg = -1 THEN {Done([s EXCEPT !.rw[o].upg = t], t, 0)} ELSE {}
    [] k = "up_try" ->
         LET x == s.rw[o]  free == x.writer = -1 /\ x.upg = -1 IN
         (IF free THEN {Done([s EXCEPT !.rw[o].upg = t], t, 1)} ELSE {})
         \cup (IF ~free \/ OthersBusy(s, t, RwOps, op.o) THEN {Done(s, t, 0)} ELSE {})
    [] k = "up_unlock" -> {Done([s EXCEPT !.rw[o].upg = -1], t, 0)}
    \* upgrade: waits for the current shared holders only; the upgradable slot is kept until exclusive access is held,
    \* so no writer can get in between
    [] k = "upgrade" ->
         IF s.rw[o].readers = {} /\ s.rw[o].writer = -1 THEN {Done([s EXCEPT !.rw[o].upg = -1, !.rw[o].writer = t], t, 0)} ELSE {}
    [] k = "try_upgrade" ->
         (IF s.rw[o].readers = {} THEN {Done([s EXCEPT !.rw[o].upg = -1, !.rw[o].writer = t], t, 1)} ELSE {})
         \cup (IF s.rw[o].readers # {} \/ OthersBusy(s, t, RwOps, op.o) THEN {Done(s, t, 0)} ELSE {})
    \* the three downgrades never wait and never let a writer in
    [] k = "downgrade" -> {Done([s EXCEPT !.rw[o].writer = -1, !.rw[o].readers = @ \cup {t}], t, 0)}
    [] k = "down_up" -> {Done([s EXCEPT !.rw[o].upg = -1, !.rw[o].readers = @ \cup {t}], t, 0)}
    [] k = "down_to_up" -> {Done([s EXCEPT !.rw[o].writer = -1, !.rw[o].upg = t], t, 0)}
    [] k = "get" -> {Done(s, t, s.rw[o].data)}
    [] k = "set" -> {Done([s EXCEPT !.rw[o].data = v], t, 0)}
    \* ---- Mutex
    [] k = "pm_lock" -> IF s.pm[o] = -1 THEN {Done([s EXCEPT !.pm[o] = t], t, 0)} ELSE {}
    [] k = "pm_try" ->
         (IF s.pm[o] = -1 THEN {Done([s EXCEPT !.pm[o] = t], t, 1)} ELSE {})
         \cup (IF s.pm[o] # -1 \/ OthersBusy(s, t, {"pm_lock", "pm_try", "pm_unlock"}, op.o) THEN {Done(s, t, 0)} ELSE {})
    [] k = "pm_unlock" -> {Done([s EXCEPT !.pm[o] = -1], t, 0)}
    \* ---- DashMap (o = map * 16 + key): every operation is atomic on a plain map
    [] k \in {"dm_insert", "dm_get", "dm_remove", "dm_contains", "dm_len", "dm_alter", "dm_clear"} ->
         LET m == (op.o \div NKeys) + 1  key == op.o % NKeys  M == s.dm[m] IN
         (CASE k = "dm_insert" -> {Done([s EXCEPT !.dm[m][key] = v], t, M[key])}
           [] k = "dm_get" -> {Done(s, t, M[key])}
           [] k = "dm_remove" -> {Done([s EXCEPT !.dm[m][key] = -1], t, M[key])}
           [] k = "dm_contains" -> {Done(s, t, IF M[key] # -1 THEN 1 ELSE 0)}
           [] k = "dm_len" -> {Done(s, t, Cardinality({x \in DOMAIN M : M[x] # -1}))}
           [] k = "dm_alter" -> {Done(IF M[key] # -1 THEN [s EXCEPT !.dm[m][key] = @ + v] ELSE s, t, 0)}
           [] k = "dm_clear" -> {Done([s EXCEPT !.dm[m] = [x \in DOMAIN M |-> -1]], t, 0)})
    [] k = "yield" -> {Done(s, t, 0)}
    [] OTHER -> {}

Register(s, t) == s

RwExclusive(s) ==
  \A x \in 1..Len(s.rw) : /\ s.rw[x].writer # -1 => (s.rw[x].readers = {} /\ (s.rw[x].upg = -1 \/ "UpgradeOvertakenByWriter" \in s.flags))
ModelInv(s) == RwExclusive(s)
=============================================================================
