SPECIFICATION Spec
INVARIANT AtEnd
CHECK_DEADLOCK FALSE
