SPECIFICATION Spec
INVARIANT OutInv
INVARIANT SafetyInv
VIEW View
CHECK_DEADLOCK FALSE
