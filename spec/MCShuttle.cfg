SPECIFICATION Spec
INVARIANT OutInv
INVARIANT SafetyInv
CHECK_DEADLOCK FALSE
