SPECIFICATION Spec
INVARIANT Inv
CHECK_DEADLOCK FALSE
